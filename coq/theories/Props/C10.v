(* C10 Health probes: Ready only after success; threshold failures stop and restart.
   This file contains only the property statements; every proof is `exact <lemma>`.
   Model: coq/theories/Probe/Model.v (validate = Probe.ValidateAndSetDefaults, p_step = go-health counter +
   Prober.healthCheckCompleted, health_step = the process-level coupling after the repair F11). *)
From Coq Require Import List ZArith NArith Bool.
From PC.Probe Require Import Model Check Proofs.
Import ListNotations.
Open Scope Z_scope.

(* "Whatever probe parameters are configured, the effective ones are legal: period, timeout and thresholds
   at least 1, initial delay at least 0, port within 1..65535 or unset": for ALL integers and ALL port
   strings (byte strings). *)
Theorem C10_defaults_legal : forall p : probe,
  let q := validate p in
  0 <= p_delay q /\ 1 <= p_period q /\ 1 <= p_timeout q /\ 1 <= p_succ q /\ 1 <= p_fail q /\
  match p_http q with
  | None => True
  | Some h => h_numport h = 0 \/ 1 <= h_numport h <= 65535
  end.
Proof. exact defaults_legal. Qed.
Print Assumptions C10_defaults_legal.

(* applying the defaults again changes nothing; parameters that are already legal are kept *)
Theorem C10_defaults_idempotent : forall p : probe, validate (validate p) = validate p.
Proof. exact validate_idem. Qed.
Print Assumptions C10_defaults_idempotent.

Theorem C10_defaults_keep_legal : forall p : probe,
  (0 <= p_delay p -> p_delay (validate p) = p_delay p) /\
  (1 <= p_period p -> p_period (validate p) = p_period p) /\
  (1 <= p_timeout p -> p_timeout (validate p) = p_timeout p) /\
  (1 <= p_succ p -> p_succ (validate p) = p_succ p) /\
  (1 <= p_fail p -> p_fail (validate p) = p_fail p).
Proof. exact validate_keeps. Qed.
Print Assumptions C10_defaults_keep_legal.

(* a port written as a decimal number n (0..70000, complete sweep) is n when 1 <= n <= 65535, else unset *)
Theorem C10_decimal_ports : forall (h : http) (n : Z), 0 <= n <= 70000 -> h_port h = decimal n ->
  h_numport (validate_http h) = if (1 <=? n) && (n <=? 65535) then n else 0.
Proof. exact decimal_ports. Qed.
Print Assumptions C10_decimal_ports.

(* "after failure_threshold consecutive failures": for every threshold and every finite history of
   start / stop / probe results, the callback for the next result is absent while the prober is stopped,
   and otherwise carries the outcome and fatal = (the run of consecutive failures since the last success
   or stop, this result included, has EXACTLY the threshold's length). *)
Theorem C10_fatal_exact : forall (thr : Z) (pre : list pev) (ok : bool),
  p_out thr p_init (pre ++ [PResult ok]) =
  p_out thr p_init pre ++
  [if spec_stopped (rev pre) then None else Some (ok, spec_trail (PResult ok :: rev pre) =? thr)].
Proof. exact fatal_exact. Qed.
Print Assumptions C10_fatal_exact.

(* beyond the threshold nothing is raised again while the failures continue *)
Theorem C10_fatal_once : forall (thr : Z) (s : pst) (n : nat),
  snd (p_step thr s (PResult false)) = Some (false, true) ->
  p_out thr (fst (p_step thr s (PResult false))) (repeat (PResult false) n) = repeat (Some (false, false)) n.
Proof. exact after_fatal_quiet. Qed.
Print Assumptions C10_fatal_once.

(* never while stopped; and with a legal threshold fatal is only ever raised on a failure *)
Theorem C10_silent_while_stopped : forall (thr : Z) (outs : list bool) (s : pst), stopped s = true ->
  p_out thr s (map PResult outs) = map (fun _ => None) outs.
Proof. exact silent_until_start. Qed.
Print Assumptions C10_silent_while_stopped.

Theorem C10_fatal_implies_failure : forall (thr : Z) (s : pst) (ok : bool), 1 <= thr ->
  snd (p_step thr s (PResult ok)) = Some (ok, true) -> ok = false.
Proof. exact fatal_implies_failure. Qed.
Print Assumptions C10_fatal_implies_failure.

(* the observation the model produces satisfies the specification-level monitor used on the real prober *)
Theorem C10_prober_monitor : forall (p : probe) (evs : list pev),
  holds_p (mkPC p evs (prober_callbacks p evs)) = true.
Proof. exact holds_p_model. Qed.
Print Assumptions C10_prober_monitor.

(* "reported Ready only after a probe has succeeded ... its readiness is forgotten when it is restarted or
   stopped": for every configuration and every event history *)
Theorem C10_ready_only_after_success : forall (c : cfg) (ops : list hop), hl (h_run c ops) = HReady ->
  exists pre post, ops = pre ++ RR true false :: post /\
    deliverable c (h_run c pre) (RR true false) = true /\
    launches (h_run c ops) = launches (h_run c (pre ++ [RR true false])) /\
    signals (h_run c ops) = signals (h_run c (pre ++ [RR true false])).
Proof. exact ready_only_after_success. Qed.
Print Assumptions C10_ready_only_after_success.

Theorem C10_not_ready_after_failure : forall (c : cfg) (s : hst), deliverable c s (RR false false) = true ->
  hl (health_step c s (RR false false)) = HNotReady.
Proof. exact notready_after_failure. Qed.
Print Assumptions C10_not_ready_after_failure.

Theorem C10_readiness_forgotten : forall (c : cfg) (s : hst) (o : hop),
  (launches s < launches (health_step c s o) \/ signals s < signals (health_step c s o))%nat ->
  hl (health_step c s o) = HUnknown.
Proof. exact forgotten. Qed.
Print Assumptions C10_readiness_forgotten.

(* "after failure_threshold consecutive failures it is stopped and then relaunched if its restart policy is
   always or on_failure" - on the code repaired by fixes/F11-*.diff, for every reachable state of a
   non-daemon process.  Under on_failure the relaunch depends on the exit code of the stopped command
   (wants_relaunch): see C10_relaunch_on_failure_refuted. *)
Theorem C10_fatal_stop_relaunch_partial : forall (c : cfg) (ops : list hop) (ok : bool),
  c_daemon c = false -> c_fixed c = true ->
  let s := h_run c ops in
  deliverable c s (RR ok true) = true ->
  let s' := health_step c s (RR ok true) in
  signals s' = S (signals s) /\ hl s' = HUnknown /\
  (wants_relaunch c = true -> budget c (restarts s) = true ->
     launches s' = S (launches s) /\ st s' = Running /\ alive s' = true /\ restarts s' = restarts s + 1) /\
  (wants_relaunch c = false -> launches s' = launches s /\ st s' = Completed).
Proof. exact fatal_relaunch. Qed.
Print Assumptions C10_fatal_stop_relaunch_partial.

(* finding F11b: policy on_failure, the command answers the stop signal with exit code 0: not relaunched *)
Theorem C10_relaunch_on_failure_refuted :
  exists c ops, c_fixed c = true /\ c_policy c = PolOnFailure /\ c_daemon c = false /\
    let s := h_run c ops in
    deliverable c s (RR false true) = true /\ budget c (restarts s) = true /\
    launches (health_step c s (RR false true)) = launches s /\ st (health_step c s (RR false true)) = Completed.
Proof.
  exists (mkCfg PolOnFailure 0 false true false 0 true), [RR true false]. vm_compute. repeat split; reflexivity.
Qed.
Print Assumptions C10_relaunch_on_failure_refuted.

(* finding F11: the unrepaired code never relaunches (the back-off sees the cancelled run context) *)
Theorem C10_relaunch_unrepaired_refuted :
  let c := mkCfg PolAlways 0 false true false (-1) false in
  let s := h_run c [RR true false; RR false true] in
  st s = Completed /\ launches s = 1%nat /\ restarts s = 1 /\ signals s = 1%nat.
Proof. exact f11_unfixed_no_relaunch. Qed.
Print Assumptions C10_relaunch_unrepaired_refuted.

(* "A daemon whose liveness probe fails failure_threshold times in a row is treated as exited and handled by
   its restart policy" *)
Theorem C10_daemon_liveness_is_exit : forall (c : cfg) (s : hst) (ok : bool), c_daemon c = true ->
  st s = Launched -> deliverable c s (LR ok true) = true ->
  health_step c s (LR ok true) = after_exit c s 0.
Proof. exact daemon_liveness_is_exit. Qed.
Print Assumptions C10_daemon_liveness_is_exit.

Theorem C10_daemon_liveness_policy : forall (c : cfg) (s : hst) (ok : bool), c_daemon c = true ->
  st s = Launched -> stopflag s = false -> cancelled s = false ->
  deliverable c s (LR ok true) = true ->
  let s' := health_step c s (LR ok true) in
  match c_policy c with
  | PolAlways => if budget c (restarts s)
                 then launches s' = S (launches s) /\ st s' = Launching /\ hl s' = HUnknown
                 else launches s' = launches s /\ st s' = Completed
  | _ => launches s' = launches s /\ st s' = Completed
  end.
Proof. exact daemon_liveness_restart. Qed.
Print Assumptions C10_daemon_liveness_policy.

(* the trace that the (repaired) model produces for ANY event list of a non-daemon process passes the very
   monitor that the check evaluates on the implementation's traces (F11b excluded by f11b_free) *)
Theorem C10_process_monitor : forall (c : cfg) (ops : list hop),
  c_daemon c = false -> c_fixed c = true -> f11b_free c = true -> holds_h (model_case c ops) = true.
Proof. exact holds_h_model_nd. Qed.
Print Assumptions C10_process_monitor.

(* non-vacuity: concrete histories that meet the hypotheses above *)
Example C10_example :
  (* threshold 0 is replaced by 3; F F F F S F: fatal exactly at the third failure *)
  prober_callbacks (mkProbe (-1) 0 0 0 0 None) (map PResult [false; false; false; false; true; false]) =
    [Some (false, false); Some (false, false); Some (false, true); Some (false, false); Some (true, false);
     Some (false, false)] /\
  (* Ready after a success, fatal => one stop signal, relaunched, readiness forgotten *)
  (let c := mkCfg PolAlways 0 false true false (-1) true in
   hl (h_run c [RR true false]) = HReady /\
   deliverable c (h_run c [RR true false]) (RR false true) = true /\
   obs_of (h_run c [RR true false; RR false true]) = mkO Running HUnknown 2 1 1) /\
  (* a launched daemon under `always`: fatal liveness = exit = relaunch *)
  (let c := mkCfg PolAlways 0 true false true (-1) true in
   st (h_run c [EX 0]) = Launched /\ obs_of (h_run c [EX 0; LR false true]) = mkO Launching HUnknown 2 0 1) /\
  h_numport (validate_http (mkHttp [] [] [] [43; 56; 48]%N 7)) = 80.
Proof. vm_compute. repeat split; reflexivity. Qed.
