(* C11 Output capture: every line a process writes reaches its log, once, in order.
   This file contains only the property statements; every proof is `exact <lemma>`.
   Model: PC.Lines.Model (reader of Process.handleOutput AFTER the repair fixes/F5-last-line.diff,
   the two handlers, the restart separator, ProcessLogBuffer, PCLog).  Daemon processes are out of scope
   (their streams are deliberately abandoned after the launch timeout): C11 is PARTIAL for daemons. *)
From Coq Require Import List NArith Bool.
From PC.LogBuf Require Import Model.
From PC.Lines Require Import Model Proofs Check CheckProofs.
Import ListNotations.

(* "Everything a process writes ... is available line by line, in order and exactly once ... including
   a final line without a trailing newline, very long lines": for every text - written as its
   newline-terminated lines ls followed by an unterminated tail t - and EVERY way of cutting it into
   chunks (what the pipe reads return), the reader hands over each terminated line once, in order, then
   the tail if it is non-empty.  No bound on line length or count. *)
Theorem C11_chunking : forall (ls : list line) (t : line) (chunks : list (list N)),
  Forall no_nl ls -> no_nl t -> concat chunks = text_of ls t ->
  emit_all true chunks = ls ++ tail_line t.
Proof. exact chunking. Qed.
Print Assumptions C11_chunking.

(* ... and that covers all byte strings: each one is such a text. *)
Theorem C11_every_text : forall s : list N,
  exists ls t, Forall no_nl ls /\ no_nl t /\ s = text_of ls t.
Proof. exact text_decompose. Qed.
Print Assumptions C11_every_text.

(* the same, with the lines given by the specification function split_lines *)
Theorem C11_chunking_split : forall chunks : list (list N),
  emit_all true chunks = split_lines (concat chunks).
Proof. exact emit_all_fixed. Qed.
Print Assumptions C11_chunking_split.

(* The UNCHANGED reader (break on io.EOF) loses the unterminated last line: finding F5. *)
Theorem C11_chunking_refuted : exists chunks : list (list N),
  emit_all false chunks <> split_lines (concat chunks).
Proof. exact emit_all_original_refuted. Qed.
Print Assumptions C11_chunking_refuted.

Theorem C11_chunking_partial : forall chunks : list (list N),
  ends_with_nl (concat chunks) = true -> emit_all false chunks = split_lines (concat chunks).
Proof. exact emit_all_original_partial. Qed.
Print Assumptions C11_chunking_partial.

(* "in per-stream order and exactly once ... output of every restart attempt": for every list of attempts
   (each with arbitrary chunkings of its two streams) and every interleaving of the two handler goroutines
   within each attempt, the records a sink receives, projected onto a stream, are exactly that stream's
   lines, attempt after attempt (with the "\n" message that the supervisor itself logs at info level
   between two attempts). *)
Theorem C11_stream_order : forall (atts : list attempt) (scheds : list (list bool)),
  proj SOut (run_entries true scheds atts) = expected_out (out_texts atts) /\
  proj SErr (run_entries true scheds atts) = expected_err (err_texts atts).
Proof. exact stream_projection. Qed.
Print Assumptions C11_stream_order.

(* the schedules of the model produce every interleaving of two sequences, and nothing else *)
Theorem C11_all_interleavings : forall (A : Type) (a b m : list A),
  Interleave a b m <-> exists sched, merge sched a b = m.
Proof. exact @merge_iff. Qed.
Print Assumptions C11_all_interleavings.

(* "in its in-memory log (up to the configured length)": the buffer is a suffix of the record sequence,
   holds at least min(#records, log_length) and at most log_length+100 of them, and all of them while no
   more than that were written. *)
Theorem C11_memory_log : forall (size : nat) (atts : list attempt) (scheds : list (list bool)),
  let es := run_entries true scheds atts in
  let b := mem_log size (map snd es) in
  (exists pre, map snd es = pre ++ b) /\
  Nat.min (length es) size <= length b <= size + slack /\
  (length es <= size + slack -> b = map snd es) /\
  proj SOut es = expected_out (out_texts atts) /\ proj SErr es = expected_err (err_texts atts).
Proof. exact memory_streams. Qed.
Print Assumptions C11_memory_log.

(* "and - when a log file is configured - in that file once the process has ended": the logger is a FIFO
   drained at Close.  For every interleaving of senders, collector iterations and buffer write-throughs
   (channel capacity cap, flush_each_line on or off): once Close has happened the file holds exactly the
   records handed over before it, in order, each once. *)
Theorem C11_file_fifo : forall (E : Type) (cap : nat) (flush_each : bool) (ops : list (lop E)) (s : lg E),
  lrun cap flush_each linit ops = Some s -> has_close ops = true ->
  lf s = sent_before_close ops /\ lclosed s = true.
Proof. exact @file_fifo. Qed.
Print Assumptions C11_file_fifo.

(* before the Close nothing is lost, duplicated or reordered in flight *)
Theorem C11_file_in_flight : forall (E : Type) (cap : nat) (flush_each : bool) (ops : list (lop E)) (s : lg E),
  lrun cap flush_each linit ops = Some s -> has_close ops = false ->
  lf s ++ lw s ++ lq s = sent_before_close ops.
Proof. exact @file_in_flight. Qed.
Print Assumptions C11_file_in_flight.

(* per-process file and unified file alike: the records of one producer (any predicate f) keep their order *)
Theorem C11_file_projection : forall (E : Type) (cap : nat) (flush_each : bool) (ops : list (lop E)) (s : lg E)
  (f : E -> bool),
  lrun cap flush_each linit ops = Some s -> has_close ops = true ->
  filter f (lf s) = filter f (sent_before_close ops).
Proof. exact @file_projection. Qed.
Print Assumptions C11_file_projection.

(* process and file together: if what was handed to the logger before its Close is the process's record
   sequence (waitForStdOutErr precedes Wait, Wait precedes onProcessEnd/Close), each stream is in the file *)
Theorem C11_file_streams : forall cap flush_each (atts : list attempt) scheds (ops : list (lop entry)) s,
  sent_before_close ops = run_entries true scheds atts ->
  lrun cap flush_each linit ops = Some s -> has_close ops = true ->
  proj SOut (lf s) = expected_out (out_texts atts) /\ proj SErr (lf s) = expected_err (err_texts atts).
Proof. exact file_streams. Qed.
Print Assumptions C11_file_streams.

(* What is handed over after Close is silently dropped: the reason why daemons (whose handlers may outlive
   the launch) are excluded. *)
Theorem C11_send_after_close_refuted :
  exists (ops : list (lop N)) s, lrun 100 true linit ops = Some s /\ In (LSend 7%N) ops /\ ~ In 7%N (lf s).
Proof. exact send_after_close_lost. Qed.
Print Assumptions C11_send_after_close_refuted.

(* The monitor evaluated on the implementation's observations accepts everything the model can produce:
   any chunkings, any two schedules (buffer order and file order are independent), any log length. *)
Theorem C11_monitor_accepts_model : forall size pid (atts : list attempt) scheds_mem scheds_file,
  holds_C11 (observe size pid atts scheds_mem scheds_file) = true.
Proof. exact monitor_accepts_model. Qed.
Print Assumptions C11_monitor_accepts_model.

(* the decision procedure inside the monitor is exact *)
Theorem C11_monitor_interleaving_exact : forall a b m : list line,
  suffix_interleaving a b m = true <->
  exists a1 a2 b1 b2, a = a1 ++ a2 /\ b = b1 ++ b2 /\ Interleave a2 b2 m.
Proof. exact suffix_interleaving_spec. Qed.
Print Assumptions C11_monitor_interleaving_exact.

(* non-vacuity: two attempts, both streams, a missing final newline, three different chunkings;
   hypotheses of C11_chunking / C11_file_streams are met and the conclusions are the expected lines *)
Local Open Scope N_scope.
Example C11_example :
  let a1 := mkAtt [[97; 10; 98]; [98; 10; 99]] [[101]; []; [10; 10]] in      (* "a\nbb\nc" | "e\n\n" *)
  let a2 := mkAtt [[120; 10]] [] in                                           (* "x\n" *)
  let es := run_entries true [[true; false; false; true]] [a1; a2] in
  concat (a_out a1) = text_of [[97]; [98; 98]] [99] /\
  es = [(SOut, [97]); (SErr, [101]); (SErr, []); (SOut, [98; 98]); (SOut, [99]); (SOut, [10]); (SOut, [120])] /\
  proj SOut es = [[97]; [98; 98]; [99]; [10]; [120]] /\ proj SErr es = [[101]; []] /\
  (exists s, lrun 100%nat false linit (map LSend es ++ [LCollect; LFlush 1%nat; LClose]) = Some s /\ lf s = es) /\
  mem_log 3%nat (map snd es) = map snd es /\
  emit_all false (a_out a1) = [[97]; [98; 98]].
Proof. vm_compute. repeat split; try reflexivity. eexists; split; reflexivity. Qed.
