(* C20 Concurrent API use is safe: no data race, crash or deadlock  (level: PARTIAL - the lockset
   discipline and an acyclic lock order are sufficient conditions in the abstract thread semantics of
   Lockset/Model.v; the Go memory model, channels/atomics and blocking on latches are not modelled).
   This file contains only the statements; every proof is `exact <lemma>`. *)
From Coq Require Import List Bool Arith.
From PC.Lockset Require Import Model Proofs Check.
Import ListNotations.

(* "without data races on shared state": for EVERY access table T and variable v whose conflicting
   entries pairwise share a mutex, for every number of threads, every program that performs its
   accesses holding at least the locks the table says, and every interleaving: no reachable state has
   two threads about to access v, one of them writing. *)
Theorem C20_lockset_race_free : forall (T : table) (v : var), var_ok T v = true ->
  forall progs, Forall (conforms T []) progs ->
  forall s, reachable (init_state progs) s -> ~ race_on v s.
Proof. exact lockset_race_free. Qed.
Print Assumptions C20_lockset_race_free.

(* the same for thread programs that are arbitrary sequences of the table's access segments
   (lock the entry's mutexes, access, unlock) *)
Theorem C20_segment_programs_race_free : forall (T : table) (v : var), var_ok T v = true ->
  forall progs, Forall (built_from T) progs ->
  forall s, reachable (init_state progs) s -> ~ race_on v s.
Proof. exact built_from_race_free. Qed.
Print Assumptions C20_segment_programs_race_free.

(* what the check evaluates: every variable that `ok_vars` lists for a fact table is race free *)
Theorem C20_ok_vars_race_free : forall (fs : list fact) (n : nat) (v : var), In v (ok_vars fs n) ->
  forall progs, Forall (conforms (table_of fs) []) progs ->
  forall s, reachable (init_state progs) s -> ~ race_on v s.
Proof. exact ok_vars_race_free. Qed.
Print Assumptions C20_ok_vars_race_free.

(* "without any call blocking forever" (mutexes only): if the relation "b is acquired while a is held"
   admits a strictly increasing rank, no reachable state is a lock deadlock (self-deadlock included). *)
Theorem C20_order_deadlock_free : forall (rank : lock -> nat) (E : list (lock * lock)),
  order_ok rank E = true ->
  forall progs, Forall (ordered E []) progs ->
  forall s, reachable (init_state progs) s -> ~ deadlocked s.
Proof. exact order_deadlock_free. Qed.
Print Assumptions C20_order_deadlock_free.

(* The conditions matter: an access that holds no common lock with a conflicting one DOES race in the
   model, and a cyclic acquisition order DOES deadlock.  On the unchanged tree the fact table contains
   such variables (findings F31, listed by the check), so the unconditional property text is refuted
   for the code as it is; the theorems above are its _partial form (hypothesis: var_ok / order_ok). *)
Theorem C20_unguarded_access_refuted :
  var_ok T_bad 0 = false /\ Forall (conforms T_bad []) progs_bad /\
  exists s, reachable (init_state progs_bad) s /\ race_on 0 s.
Proof. exact unguarded_access_races. Qed.
Print Assumptions C20_unguarded_access_refuted.

Theorem C20_cyclic_order_refuted :
  Forall (ordered E_cyc []) progs_cyc /\
  exists s, reachable (init_state progs_cyc) s /\ deadlocked s.
Proof. exact cyclic_order_deadlocks. Qed.
Print Assumptions C20_cyclic_order_refuted.

(* non-vacuity: a table in the shape of the real one (writer and reader of variable 0 under mutex 5,
   variable 1 under mutexes 5 and 7 / 7) is consistent, the two programs conform to it, respect an
   order with a valid rank, and can actually run (a two-step execution exists). *)
Example C20_example :
  let T : table := [(0, true, [5]); (0, false, [5]); (1, true, [5; 7]); (1, false, [7])] in
  let p1 := [Acq 5; Acc 0 true; Acq 7; Acc 1 true; Rel 7; Rel 5] in
  let p2 := [Acq 7; Acc 1 false; Rel 7; Acq 5; Acc 0 false; Rel 5] in
  var_ok T 0 = true /\ var_ok T 1 = true /\
  conformsb T [] p1 = true /\ conformsb T [] p2 = true /\
  order_ok (fun l => l) [(5, 7)] = true /\
  reachable (init_state [p1; p2])
            [mkThread [5] [Acc 0 true; Acq 7; Acc 1 true; Rel 7; Rel 5];
             mkThread [7] [Acc 1 false; Rel 7; Acq 5; Acc 0 false; Rel 5]].
Proof.
  cbv zeta. repeat split; try reflexivity.
  eapply reach_step.
  - eapply reach_step; [apply reach_refl|].
    apply (step_thread _ 0 (mkThread [] [Acq 5; Acc 0 true; Acq 7; Acc 1 true; Rel 7; Rel 5])
             (mkThread [5] [Acc 0 true; Acq 7; Acc 1 true; Rel 7; Rel 5])); reflexivity.
  - apply (step_thread [mkThread [5] [Acc 0 true; Acq 7; Acc 1 true; Rel 7; Rel 5];
                        mkThread [] [Acq 7; Acc 1 false; Rel 7; Acq 5; Acc 0 false; Rel 5]]
             1 (mkThread [] [Acq 7; Acc 1 false; Rel 7; Acq 5; Acc 0 false; Rel 5])
             (mkThread [7] [Acc 1 false; Rel 7; Acq 5; Acc 0 false; Rel 5])); reflexivity.
Qed.
