(* C17 Environment: expansion/escaping at load; precedence and injected variables at launch.
   This file contains only the property statements; every proof is `exact <lemma>`.
   The model (PC.Env.Model) describes the code after the two proposed repairs
     fixes/F16-injected-env-last.diff   (injected variables are appended last)
     fixes/F34-escape-single-pass.diff  ($$ handled inside the one os.Expand pass, no placeholder text)
     fixes/F35-disabled-expansion-fresh-project.diff  (disable_env_expansion: raw text decoded into a fresh project)
   The unchanged code is modelled as well ([launch_env_orig], [load_expand_sentinel]) and refuted below. *)
From Coq Require Import String.
From Coq Require Import List NArith Bool.
From PC.Env Require Import Model Proofs ProofsSentinel Check ProofsCheck.
Import ListNotations.
Open Scope list_scope.

(* "At load time $VAR and ${VAR} in the configuration are replaced by the value from the process-compose
   environment (or .env files) while $$ yields a literal $": for every lookup function and every list of
   tokens - plain text without '$', $$, $NAME, ${NAME} with identifier names, a $NAME not directly followed
   by a letter, digit or '_' - the loader's text transformation applied to the printed tokens is the text
   with the values substituted and $$ replaced by $.  (The whole configuration file is such a token list.) *)
Theorem C17_expand_tokens : forall (mapping : str -> str) (toks : list token),
  wf_tokens toks = true -> load_expand mapping (print toks) = denote mapping toks.
Proof. exact expand_tokens. Qed.
Print Assumptions C17_expand_tokens.

(* the value substituted for a name is its first definition in (process environment ++ .env files in the
   order given): what is set in the process environment wins over the files, an earlier file over a later one *)
Theorem C17_env_before_dotenv : forall (env dotenv : list (str * str)) (n : str),
  getenv (env ++ dotenv) n =
  if existsb (fun kv => str_eqb (fst kv) n) env then getenv env n else getenv dotenv n.
Proof. exact getenv_app. Qed.
Print Assumptions C17_env_before_dotenv.

(* "and nothing is expanded when expansion is disabled": for every text *)
Theorem C17_expand_disabled : forall (mapping : str -> str) (s : str), load_text true mapping s = s.
Proof. exact expand_disabled. Qed.
Print Assumptions C17_expand_disabled.

(* ... including the KEYS of the maps of the file (process names, env_cmds names): exactly the raw key is loaded *)
Theorem C17_disabled_keys : forall (mapping : str -> str) (key : str), loaded_keys true mapping key = [key].
Proof. exact disabled_keys. Qed.
Print Assumptions C17_disabled_keys.

(* the unchanged loader decodes the raw text on top of the expanded project: a map entry whose key contains a
   token is then present twice, once expanded - finding F35 *)
Theorem C17_disabled_keys_orig_refuted :
  exists (env : list (str * str)) (toks : list token),
    wf_tokens toks = true /\ loaded_keys_orig true (getenv env) (print toks) <> [print toks].
Proof. exact disabled_keys_orig_refuted. Qed.
Print Assumptions C17_disabled_keys_orig_refuted.

(* text without '$' is never touched, and does not disturb the expansion of what follows it *)
Theorem C17_plain_text_untouched : forall (mapping : str -> str) (pre s : str),
  no_dollar pre = true -> load_expand mapping (pre ++ s) = pre ++ load_expand mapping s.
Proof. exact expand_plain_prefix. Qed.
Print Assumptions C17_plain_text_untouched.

(* The unchanged loader (placeholder text ##PC_ENV_ESCAPED##) does NOT satisfy the clause for all values:
   a value (or file text) that contains the placeholder is mangled - finding F34. *)
Theorem C17_expand_tokens_sentinel_refuted :
  exists (env : list (str * str)) (toks : list token),
    wf_tokens toks = true /\
    load_expand_sentinel (getenv env) (print toks) <> denote (getenv env) toks.
Proof. exact sentinel_refuted. Qed.
Print Assumptions C17_expand_tokens_sentinel_refuted.

(* ... it satisfies it under the extra (decidable) hypothesis that no '#' - the first byte of the placeholder -
   occurs in the plain text and in the substituted values; on those inputs the repair F34 changes nothing *)
Theorem C17_expand_tokens_sentinel_partial : forall (mapping : str -> str) (toks : list token),
  wf_tokens toks = true -> hash_free mapping toks = true ->
  load_expand_sentinel mapping (print toks) = denote mapping toks.
Proof. exact expand_tokens_sentinel_partial. Qed.
Print Assumptions C17_expand_tokens_sentinel_partial.

Theorem C17_repair_F34_preserves : forall (mapping : str -> str) (toks : list token),
  wf_tokens toks = true -> hash_free mapping toks = true ->
  load_expand mapping (print toks) = load_expand_sentinel mapping (print toks).
Proof. exact repair_preserves. Qed.
Print Assumptions C17_repair_F34_preserves.

(* "At launch every command receives ... the inherited, env_cmds, global and per-process variables, with
   per-process values taking precedence over global ones and global ones over inherited ones":
   the value the child sees for ANY key (os/exec: the last entry with that key) *)
Theorem C17_precedence : forall (name : str) (num : N) (inh g p : list str) (k : str),
  lookup_last k (launch_env name num inh g p) =
  first_some [lookup_last k (injected name num); lookup_last k p; lookup_last k g; lookup_last k inh].
Proof. exact precedence. Qed.
Print Assumptions C17_precedence.

Theorem C17_precedence_layers : forall (name : str) (num : N) (inh g p : list str) (k : str),
  str_eqb k K_PROC_NAME = false -> str_eqb k K_REPLICA_NUM = false ->
  lookup_last k (launch_env name num inh g p) =
  first_some [lookup_last k p; lookup_last k g; lookup_last k inh].
Proof. exact precedence_layers. Qed.
Print Assumptions C17_precedence_layers.

(* env_cmds results belong to the global layer (appended to it by prepareEnvCmds) *)
Theorem C17_envcmds_global : forall (glob : list str) (cmds : list (str * str)) (k : str),
  lookup_last k (global_env glob cmds) =
  first_some [lookup_last k (map cmd_entry cmds); lookup_last k glob].
Proof. exact envcmds_global. Qed.
Print Assumptions C17_envcmds_global.

(* "every command receives PC_PROC_NAME and PC_REPLICA_NUM for its own replica": whatever the inherited,
   global (incl. env_cmds) and per-process layers define *)
Theorem C17_injected_own : forall (name : str) (num : N) (inh g p : list str),
  lookup_last K_PROC_NAME (launch_env name num inh g p) = Some name /\
  lookup_last K_REPLICA_NUM (launch_env name num inh g p) = Some (dec num).
Proof. exact injected_own. Qed.
Print Assumptions C17_injected_own.

(* ... and the number is a faithful decimal numeral: different replicas receive different values *)
Theorem C17_replica_num_faithful : forall n m : N,
  parse_dec (dec n) = Some n /\ (dec n = dec m -> n = m).
Proof. exact dec_faithful. Qed.
Print Assumptions C17_replica_num_faithful.

(* The unchanged code (injected variables FIRST) does not satisfy that clause - finding F16 ... *)
Theorem C17_injected_own_orig_refuted :
  exists name num inh g p,
    lookup_last K_PROC_NAME (launch_env_orig name num inh g p) <> Some name \/
    lookup_last K_REPLICA_NUM (launch_env_orig name num inh g p) <> Some (dec num).
Proof. exact injected_own_orig_refuted. Qed.
Print Assumptions C17_injected_own_orig_refuted.

(* ... it satisfies it exactly when no layer defines the two names *)
Theorem C17_injected_own_orig_partial : forall name num inh g p,
  lookup_last K_PROC_NAME (inh ++ g ++ p) = None ->
  lookup_last K_REPLICA_NUM (inh ++ g ++ p) = None ->
  lookup_last K_PROC_NAME (launch_env_orig name num inh g p) = Some name /\
  lookup_last K_REPLICA_NUM (launch_env_orig name num inh g p) = Some (dec num).
Proof. exact injected_own_orig_partial. Qed.
Print Assumptions C17_injected_own_orig_partial.

(* "its working directory is the configured one" *)
Theorem C17_working_dir : forall wd : str, launch_dir wd = wd.
Proof. exact launch_dir_unchanged. Qed.
Print Assumptions C17_working_dir.

(* model and monitor agree: what the model produces satisfies the monitor that the check evaluates on the
   implementation's output, for every input *)
Theorem C17_model_satisfies_monitor_launch :
  forall name num inh glob cmds proc wd,
    holds_C17 (CLaunch name num inh glob cmds proc wd false
                       (launch_env name num inh (global_env glob cmds) proc) (launch_dir wd)) = true.
Proof. exact model_monitor_launch. Qed.
Print Assumptions C17_model_satisfies_monitor_launch.

Theorem C17_model_satisfies_monitor_load :
  forall dis env toks pre post,
    wf_tokens toks = true ->
    holds_C17 (CLoad dis env [SLit pre; STok toks (load_text dis (getenv env) (print toks)); SLit post] false) = true.
Proof. exact model_monitor_load. Qed.
Print Assumptions C17_model_satisfies_monitor_load.

(* non-vacuity: a concrete file fragment and a concrete launch that meet the hypotheses *)
Example C17_example :
  let env := [(b "HOME"%string, b "/home/u"%string); (b "N"%string, b "7"%string)] in
  let toks := [TText (b "cmd: 'ls "%string); TVar (b "HOME"%string); TText (b "/x"%string);
               TBrace (b "N"%string); TText (b "y costs 5"%string); TEsc; TBrace (b "UNSET"%string);
               TText (b "'"%string)] in
  wf_tokens toks = true /\
  print toks = b "cmd: 'ls $HOME/x${N}y costs 5$$${UNSET}'"%string /\
  load_expand (getenv env) (print toks) = b "cmd: 'ls /home/u/x7y costs 5$'"%string /\
  let inh := [b "A=inherited"%string; b "PC_REPLICA_NUM=7"%string; b "B=inherited"%string] in
  let g := global_env [b "A=global"%string; b "C=global"%string] [(b "C"%string, b "from-cmd"%string)] in
  let p := [b "A=proc"%string; b "PC_PROC_NAME=mine"%string] in
  let e := launch_env (b "web"%string) 2 inh g p in
  map (fun k => lookup_last (b k) e) ["A"; "B"; "C"; "PC_PROC_NAME"; "PC_REPLICA_NUM"; "D"]%string =
  [Some (b "proc"%string); Some (b "inherited"%string); Some (b "from-cmd"%string);
   Some (b "web"%string); Some (b "2"%string); None].
Proof. vm_compute. repeat split; reflexivity. Qed.
