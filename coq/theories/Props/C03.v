(* C03 Shutdown completeness: after ShutDownProject returns nothing of its snapshot runs and nothing
   starts without a new explicit start request.           (level: PROOF, partial - see the hypotheses)

   This file contains only the statements; every proof is `exact <lemma>` (Sup/RelC03.v, Sup/ExC03.v).

   Setting.  `accept (init cs ord) evs = Some s` : the history `evs` (trace points of the verif build:
   (thread, event) pairs) is a run of the supervisor model Sup/Model.v for the project `cs`
   (ordered-shutdown flag `ord`).  `holds_C03 cs evs` runs the monitor `mon_C03` (Sup/Monitors.v) over the
   history; the monitor only looks at externally meaningful events and says, in plain words:

   (a) at every `EShutdownEnd` of a thread th (ShutDownProject is about to return): for every instance i in
       the snapshot that this shutdown took (the argument of th's `EShutdownOrder`), no command of i is
       alive (every `ELaunch true` of i was followed by an `ECmdExit i`), and the status reported for i's
       process name (last `EState _ st` written for that name) is not Running/Launching/Launched;
   (b) at every successful launch `ELaunch true` of an instance i that happens after some shutdown has
       completed: i was created (`ENewInst`) after the LAST completed shutdown by a thread that was inside
       a StartProcess/RestartProcess call (an explicit new start request), or i was created by such a call
       at any time and was never in the snapshot of a shutdown (the call was still in progress when the
       shutdown took its snapshot).
   ("Run() returns" is the stuck-freedom clause; it is not part of this monitor - see manifest.d/C03.json.)

   Hypotheses of the theorem, both decidable on the history:
   * `W_C03 (final_obs cs evs) = false` : the history did not go through one of four known check-then-act
     windows (known_findings.json): F20/F21 commit, F37 sdlag, F25 dup, F38 zombie.  The other three
     window flags (F26 late, F22 sdspawn, F32 stale) are NOT needed.
   * `escapes_C03 cs evs = false` : nobody escaped a snapshot, i.e. (1) no instance was created by Run()'s
     own spawn loop after a completed shutdown, and (2) at every `EShutdownEnd` every instance that exists
     and is not in that shutdown's snapshot has already reached `EInstExit` (its goroutine is over) or is
     "excused": created by a StartProcess/RestartProcess call and never in a snapshot.  So an explicit
     start that overlaps the shutdown is INSIDE the theorem (it waits for the registry lock that the
     shutdown holds); (2) fails only when Run()'s spawn loop overlaps the shutdown (F22).  The hypothesis is
     needed for clause (b) only: clause (a) is proved from "active and not finished => registered => in the
     snapshot" (the registry lock is held for the whole call), see C03x_partial below.
     The window flag w_sdspawn cannot replace (1): see C03_windows_not_enough.
   No well-formedness condition on the configuration is needed. *)
From Coq Require Import List ZArith NArith Bool.
From PC.Base Require Import Assoc.
From PC.Sup Require Import Model Monitors MonC12w Check Sim RelC03 RelC03b RelC03x ExC03 EnC03.
Import ListNotations.

Theorem C03_main_partial : forall cs ord evs s,
  accept (init cs ord) evs = Some s ->
  W_C03 (final_obs cs evs) = false ->
  escapes_C03 cs evs = false ->
  holds_C03 cs evs = true.
Proof. exact C03_partial_lemma. Qed.
Print Assumptions C03_main_partial.

(* the same, with the monitor unfolded at the positions of the history: [final_obs cs pre] is the observer
   state (facts accumulated from the events before that position: o_alive = launched and not yet exited,
   r_status = last status written for the name, snap_of o th = snapshot of th's shutdown in progress,
   o_sd_done = number of completed shutdowns, o_after_sd_spawn = instances created by an explicit start
   request since the last completed shutdown) *)
Theorem C03_declarative : forall cs ord evs s,
  accept (init cs ord) evs = Some s ->
  W_C03 (final_obs cs evs) = false ->
  escapes_C03 cs evs = false ->
  (forall pre th post, evs = pre ++ (th, EShutdownEnd) :: post ->
     let o := final_obs cs pre in
     forall i, In i (snap_of o th) ->
       o_alive (oi_get o i) = false /\ is_running_status (r_status (on_get o (o_nm (oi_get o i)))) = false) /\
  (forall pre th post i, evs = pre ++ (th, ELaunch true) :: post ->
     let o := final_obs cs pre in
     get th (o_th o) = Some i -> (0 < o_sd_done o)%nat ->
     In i (o_after_sd_spawn o) \/ (o_byapi (oi_get o i) = true /\ o_insnap (oi_get o i) = false)).
Proof. exact c03_declarative. Qed.
Print Assumptions C03_declarative.

(* The stronger oracle that the check evaluates besides the monitor (`holds_C03x`, Sup/Check.v): at EVERY
   `EShutdownEnd`, NO command at all is alive (for every observed instance: launched => exited) and NO process
   name is reported Running/Launching/Launched - whatever the snapshot said.  It holds for every accepted
   history that stayed out of the four windows, for configurations with distinct process names
   (`wf_confs cs` = no duplicate key in `cs`); the escape hypothesis is NOT needed. *)
Theorem C03x_partial : forall cs ord evs s,
  wf_confs cs = true ->
  accept (init cs ord) evs = Some s ->
  W_C03 (final_obs cs evs) = false ->
  holds_C03x cs evs = true.
Proof. exact C03x_lemma. Qed.
Print Assumptions C03x_partial.

Example C03x_nonvacuous :
  wf_confs c03_cs = true /\ W_C03 (final_obs c03_cs evs_c03_ok) = false /\ holds_C03x c03_cs evs_c03_ok = true.
Proof. exact c03x_nonvacuous. Qed.

(* Without the window hypothesis the statement is false of the model (and of the code: F20/F21): a stop
   that finds the process Pending after it has passed its own "am I terminated" check lets it launch
   after ShutDownProject returned.  25 events, accepted, monitor false. *)
Theorem C03_refuted : exists cs ord evs s, accept (init cs ord) evs = Some s /\ holds_C03 cs evs = false.
Proof. exact c03_refuted. Qed.
Print Assumptions C03_refuted.

(* The seven window flags alone do not suffice either (finding of this proof): a shutdown that completes
   before Run() is called - Run() then launches everything.  Accepted, no window at all, monitor false:
   part (1) of the `escapes_C03` hypothesis is needed. *)
Theorem C03_windows_not_enough :
  (exists s, accept (init c03_cs false) evs_c03_run_after = Some s) /\
  any_window (final_obs c03_cs evs_c03_run_after) = false /\ holds_C03 c03_cs evs_c03_run_after = false.
Proof. exact c03_windows_not_enough. Qed.
Print Assumptions C03_windows_not_enough.

(* a StartProcess that overlaps the shutdown (creates its instance before the snapshot, registers and launches
   it after ShutDownProject returned) satisfies both hypotheses: the theorem covers such histories *)
Example C03_start_overlap_covered :
  (exists s, accept (init c03_cs false) evs_c03_start_overlap = Some s) /\
  W_C03 (final_obs c03_cs evs_c03_start_overlap) = false /\ escapes_C03 c03_cs evs_c03_start_overlap = false /\
  holds_C03 c03_cs evs_c03_start_overlap = true.
Proof. exact c03_start_overlap_covered. Qed.

(* non-vacuity: a 53-event history (Run, launch, ShutDownProject with signal / exit / end of the process,
   Run returns, then an explicit StartProcess that launches a new instance) is accepted, satisfies both
   hypotheses, contains a completed shutdown and a launch after it, and the monitor holds *)
Example C03_nonvacuous :
  (exists s, accept (init c03_cs false) evs_c03_ok = Some s) /\
  W_C03 (final_obs c03_cs evs_c03_ok) = false /\ escapes_C03 c03_cs evs_c03_ok = false /\
  holds_C03 c03_cs evs_c03_ok = true /\ length evs_c03_ok = 53%nat /\
  In (5%N, EShutdownEnd) evs_c03_ok /\ In (3%N, ELaunch true) evs_c03_ok.
Proof. exact c03_nonvacuous. Qed.

(* ---- ENABLEDNESS facts (the liveness half of C03 presupposes that the calls return; these are NOT liveness
   theorems: no fairness, no termination argument - they say that in every state reached by an accepted history
   the step in question is possible, i.e. the model is not stuck there).
   `step s (th, e) = Some s'` : thread th can perform trace point e in state s (its pending release is flushed first). *)

(* ShutDownProject is not blocked at its end: once every instance of the snapshot has gone through onProcessEnd
   (`all_done`, the model's guard = waitForCompletion of every process), shutdown_end is possible - for the ordered
   variant (DWaitAll) and for the sequential loop when it has run out (DLoop order []). *)
Theorem C03_shutdown_can_end : forall cs ord evs s th order,
  accept (init cs ord) evs = Some s ->
  dpc (get_thread s th) = DWaitAll order \/ dpc (get_thread s th) = DLoop order [] ->
  all_done s order = true ->
  exists s', step s (th, EShutdownEnd) = Some s'.
Proof. exact en_shutdown_can_end. Qed.
Print Assumptions C03_shutdown_can_end.

(* A thread inside stopProcess (between stop_enter and stop_return, whichever branch: running -> Terminating ->
   signal, or Pending -> onProcessEnd(Terminating), or neither) always has a next step. *)
Theorem C03_stop_not_stuck : forall cs ord evs s th i,
  accept (init cs ord) evs = Some s ->
  stop_on (spc (get_thread s th)) = Some i ->
  exists e s', step s (th, e) = Some s'.
Proof. exact en_stop_not_stuck. Qed.
Print Assumptions C03_stop_not_stuck.

(* A stopped process is not stuck: (i) when its command has exited (after the stop signal or by itself) the
   instance's goroutine exists and can collect the exit code; (ii) once a stop was requested (isStopped flag) the
   restart decision is "no" and the instance goes to onProcessEnd(Completed) - it does not relaunch; (iii) a goroutine
   sleeping in its back-off whose run context was cancelled by a stop can leave the sleep. *)
Theorem C03_stopped_instance_ends : forall cs ord evs s i x c,
  accept (init cs ord) evs = Some s -> get i (insts s) = Some x ->
  (pc x = IAlive -> exited x = Some c ->
     exists th s', get th (thinst s) = Some i /\ step s (th, EWaitReturn c) = Some s') /\
  (pc x = ICodeWritten c -> f_stopped x = true ->
     exists th s' x', get th (thinst s) = Some i /\ step s (th, ERestartDecision false) = Some s' /\
                      get i (insts s') = Some x' /\ pc x' = IEnding SCompleted c) /\
  (pc x = IBackoff c -> l_runctx x = true ->
     exists th s', get th (thinst s) = Some i /\ step s (th, EBackoffCancelled) = Some s').
Proof.
  intros cs ord evs s i x c Hacc Hx. repeat split; intros.
  - eapply en_exit_collected; eauto.
  - eapply en_stopped_no_restart; eauto.
  - eapply en_backoff_cancelled; eauto.
Qed.
Print Assumptions C03_stopped_instance_ends.
