(* C03 (supervisor core) - INTERIM statement file: the full simulation theorem for mon_C03 is being
   proved in Sup/RelC03.v; until it lands, this file states what is already machine-checked for every
   accepted history of the Sup model: the observer's picture (on which the monitor holds_C03 is
   evaluated) agrees with the model state. *)
From Coq Require Import List ZArith NArith Bool.
From PC.Base Require Import Assoc.
From PC.Sup Require Import Model Monitors RelCore Agreement RelC02.

Theorem C03_observer_agrees_with_model : forall cs ord evs s,
  accept (init cs ord) evs = Some s -> Rc cs s (final_obs cs evs).
Proof. exact sup_agreement. Qed.
Print Assumptions C03_observer_agrees_with_model.
