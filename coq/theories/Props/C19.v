(* C19 REST API and client: faithful view of the runner, client errors never become 5xx.
   This file contains only the property statements; every proof is `exact <lemma>`.
   Model: PC.Api.Model ([handle]: every handler of src/api/pc_api.go + the entry of ws_api.go;
   [client_decode]/[req_of]: src/client/*.go after the repairs fixes/F10-*.diff, fixes/F30-*.diff). *)
From Coq Require Import List ZArith NArith Bool.
From PC.Api Require Import Model Proofs.
Import ListNotations.

(* "Requests that are invalid - non-numeric or out-of-range path parameters, malformed bodies - are
   answered with a 4xx status and an error message": for every route, every parameter, every body,
   whatever the runner would have answered. *)
Theorem C19_4xx_malformed : forall q r, routed q = true -> malformed q = true ->
  handle q r = (400, BErr e_parse).
Proof. exact reject_400. Qed.
Print Assumptions C19_4xx_malformed.

(* ... where "malformed" is, route by route, exactly: a numeric path parameter that strconv.Atoi rejects
   (not a decimal literal, or outside the 64-bit range), or a body that does not bind. *)
Theorem C19_malformed_iff : forall q,
  malformed q = match r_op q with
                | OLogs => match atoi (r_p1 q), atoi (r_p2 q) with Some _, Some _ => false | _, _ => true end
                | OScale | OWs => match atoi (r_p1 q) with Some _ => false | None => true end
                | OStopMany | OUpdateProcess | OUpdateProject => negb (bind_ok (r_body q))
                | _ => false
                end.
Proof. exact malformed_iff. Qed.
Print Assumptions C19_malformed_iff.

(* "unknown process names" and every other error result of the runner: 400 with the runner's error text,
   207 with the status map for a partial stop / update; for every route that calls the runner except
   GET /project/state (next theorem) and POST /project/stop (answers before it calls). *)
Theorem C19_4xx : forall q r k, routed q = true -> call_of q = PCall k ->
  shape_ok (r_op q) r = true -> is_error r = true ->
  r_op q <> OProjectState -> r_op q <> OShutdown ->
  handle q r = error_response r /\ (fst (handle q r) = 400 \/ fst (handle q r) = 207).
Proof. exact error_4xx. Qed.
Print Assumptions C19_4xx.

(* "no request makes the server fail internally (5xx)": no request, whatever its parameters and body and
   whatever the runner answers, gets a status >= 500 - unless the runner's own GetProjectState fails. *)
Theorem C19_never_5xx : forall q r, (r_op q = OProjectState -> is_error r = false) ->
  fst (handle q r) < 500.
Proof. exact never_5xx. Qed.
Print Assumptions C19_never_5xx.

(* the exception is real: an error of GetProjectState is answered 500 (pc_api.go:389-392).  The bundled
   runner's GetProjectState has no error path on a consistent runner; the harness checks that no 500 is
   ever observed on the live runner. *)
Theorem C19_never_5xx_refuted :
  exists q r, routed q = true /\ shape_ok (r_op q) r = true /\ malformed q = false /\
              fst (handle q r) = 500.
Proof. exact project_state_error_is_500. Qed.
Print Assumptions C19_never_5xx_refuted.

(* whole request sequences, the runner's answers depending arbitrarily on the history of calls
   (= interleaved state changes): never 5xx ... *)
Theorem C19_session_never_5xx : forall R : runner,
  (forall h k, op_of k = OProjectState -> is_error (R h k) = false) ->
  forall qs h, Forall (fun resp => fst resp < 500) (fst (serve R h qs)).
Proof. exact serve_never_5xx. Qed.
Print Assumptions C19_session_never_5xx.

(* ... the runner sees exactly the well-formed requests' operations, in order ("performs the same
   operation"); a rejected request leaves no trace and is answered 4xx. *)
Theorem C19_session_same_operations : forall (R : runner) qs h, snd (serve R h qs) = h ++ calls_of qs.
Proof. exact serve_history. Qed.
Print Assumptions C19_session_same_operations.

Theorem C19_rejected_no_effect : forall (R : runner) h q, routed q = false \/ malformed q = true ->
  snd (serve1 R h q) = h /\ 400 <= fst (fst (serve1 R h q)) < 500.
Proof. exact rejected_no_effect. Qed.
Print Assumptions C19_rejected_no_effect.

(* "reports the same result ... and the bundled client decodes it back to the same value": for every
   operation of the client, every argument that survives the URL, every result the runner can return. *)
Theorem C19_faithful : forall k r, wf_call k = true -> shape_ok (op_of k) r = true ->
  reportable (op_of k) r = true ->
  client_decode (op_of k) (handle (req_of k) r) = view r.
Proof. exact faithful1. Qed.
Print Assumptions C19_faithful.

(* "so a remote client observes exactly the server's process states, configuration and operation
   outcomes": a remote session equals the local session on the same runner, for all call sequences. *)
Theorem C19_remote_eq_local : forall R : runner, typed R -> forall ks h, forallb wf_call ks = true ->
  remote_session R h ks = map view (local_session R h ks).
Proof. exact remote_eq_local. Qed.
Print Assumptions C19_remote_eq_local.

(* [view] differs from the local result only in that the error which accompanies a non-empty status map
   (207) is not transported ... *)
Theorem C19_view_strict : forall r, view r = strict_view r \/
  exists x m e, r = RMap (x :: m) (Some e) /\ view r = CMap (x :: m) None /\
                strict_view r = CMap (x :: m) (Some e).
Proof. exact view_strict. Qed.
Print Assumptions C19_view_strict.

(* ... so the strict reading is refuted for partial stop / update (known finding client-207-drops-error) *)
Theorem C19_faithful_strict_refuted :
  exists k r, wf_call k = true /\ shape_ok (op_of k) r = true /\ reportable (op_of k) r = true /\
              client_decode (op_of k) (handle (req_of k) r) <> strict_view r.
Proof. exact faithful_strict_refuted. Qed.
Print Assumptions C19_faithful_strict_refuted.

(* [reportable] excludes an error of GetHostName (the client reports "unexpected status" instead of the
   text); the bundled runner never returns one *)
Theorem C19_faithful_hostname_refuted :
  exists r, shape_ok OHostname r = true /\
            client_decode OHostname (handle (req_of KHostname) r) <> view r.
Proof. exact hostname_error_unreportable. Qed.
Print Assumptions C19_faithful_hostname_refuted.

(* the client of the pinned commit: F10 (an error answer is decoded into a zero value, NO error) for
   GetProcessInfo, GetProcessPorts, GetProcessesState, GetProjectState; F30 (GetProcessLog panics) *)
Theorem C19_faithful_orig_refuted_F10 :
  forall k, In k [KInfo [97%N]; KPorts [97%N]; KStates; KProjectState false] ->
  forall e, client_decode_orig (op_of k) (handle (req_of k) (RErr e)) = CZero /\
            view (RErr e) = CErr (CM e).
Proof. exact orig_client_F10. Qed.
Print Assumptions C19_faithful_orig_refuted_F10.

Theorem C19_faithful_orig_refuted_F30 : forall n off lim r,
  client_decode_orig OLogs (handle (req_of (KLogs n off lim)) r) = CPanic.
Proof. exact orig_client_F30. Qed.
Print Assumptions C19_faithful_orig_refuted_F30.

(* non-vacuity: a concrete session that meets the hypotheses (a state-dependent runner: a process that
   is stopped by the first Stop and unknown names), with an error, a partial stop and an overflow *)
Example C19_example :
  let a := [97%N] in let zz := [122%N] in
  let R : runner := fun h k =>
    match k with
    | KStop n => if str_eqb n a
                 then if existsb (fun k' => match k' with KStop _ => true | _ => false end) h
                      then RErr 3%N else ROk
                 else RErr 4%N
    | KState n => if str_eqb n a then RVal (N.of_nat (length h)) else RErr 5%N
    | KStopMany _ => RMap [(a, 6%N); (zz, 7%N)] (Some 8%N)
    | KLogs _ _ _ => RVal 9%N
    | KHostname | KStates | KInfo _ | KPorts _ | KProjectState _ => RVal 1%N
    | KUpdateProject _ | KReload => RMap [] None
    | _ => ROk
    end in
  let ks := [KState a; KStop a; KStop a; KStop zz; KState a; KStopMany [a; zz]; KLogs a 5 (-1)] in
  forallb wf_call ks = true /\
  remote_session R [] ks =
    [CVal 0%N; COk; CErr (CM 3%N); CErr (CM 4%N); CVal 4%N; CMap [(a, 6%N); (zz, 7%N)] None; CVal 9%N] /\
  map fst (fst (serve R [] [mkReq OLogs a (PInt 9223372036854775808) (PInt 1) [] JNone [] 0 false;
                             mkReq OScale a PJunk PEmpty [] JNone [] 0 false;
                             mkReq OStopMany [] PEmpty PEmpty [] JMalformed [] 0 false;
                             req_of (KStop zz)])) = [400; 400; 400; 400].
Proof. vm_compute. repeat split; reflexivity. Qed.
