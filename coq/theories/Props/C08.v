(* C08  Manual start/stop/restart semantics and at most one live instance per process
   (level: PROOF of the "at most one live command per process name" clause, with two window
   hypotheses; the other clauses of the property text are monitor/test level, see manifest.d/C08.json).
   This file contains only the statements; every proof is `exact <lemma>` (Sup/RelC08.v, SpecC08.v, ExC08.v).

   What the monitor mon_C08 (Sup/Monitors.v) checks, in plain words.  A history is the list of trace
   points (thread, event) that the supervisor emitted.  The observer remembers per instance id its
   process name (from the event "NewProcess(i, n)") and whether one of its commands is alive (set by a
   successful Commander.Start = event ELaunch true of the goroutine that runs instance i, cleared by the
   command's exit = ECmdExit i).  At EVERY successful launch of an instance i the monitor requires that
   no OTHER instance id of the same process name has a command alive.  holds_C08 cs evs = true means:
   this check never failed anywhere in evs.  [one_live] below (Sup/SpecC08.v) is the same statement
   written over history positions with a three-field view of the history instead of the observer.

   The window flags (sticky bits computed by the observer, known findings of known_findings.json):
     w_dup    (F25)  an instance of a name was created (NewProcess) while an earlier instance of that name
                     had not ended (its onProcessEnd status write had not happened), or two stop executions
                     ran on one instance at the same time;
     w_zombie (F38)  an instance of a name was created while an earlier instance of that name had ended
                     but its goroutine had not yet reached inst_exit.
   accept (init cs ord) evs = Some s  means: the history is one the Sup model can produce from the
   initial state for the configuration cs (ord = ordered shutdown flag).
   No well-formedness condition on the configuration is needed for C08. *)
From Coq Require Import List ZArith NArith Bool.
From PC.Base Require Import Assoc.
From PC.Sup Require Import Model Monitors Sim RelCore Agreement RelC08 RelC08b RelC08c SpecC08 CallC08 RegC08 StageC08 ExC08.
Import ListNotations.

(* Every history of the model that did not go through the dup or the zombie window satisfies the
   monitor: at no successful launch is a command of another instance of the same process alive.
   For all configurations, all numbers of processes and API calls, all interleavings of the model. *)
Theorem C08_main : forall cs ord evs s,
  accept (init cs ord) evs = Some s ->
  w_dup (final_obs cs evs) = false -> w_zombie (final_obs cs evs) = false ->
  holds_C08 cs evs = true.
Proof. exact C08_main_flags_lemma. Qed.
Print Assumptions C08_main.

(* the same with W_C08 o := w_dup o || w_zombie o, the form asked for *)
Theorem C08_main_W : forall cs ord evs s,
  accept (init cs ord) evs = Some s -> W_C08 (final_obs cs evs) = false -> holds_C08 cs evs = true.
Proof. exact C08_main_lemma. Qed.
Print Assumptions C08_main_W.

(* what the check uses: histories that went through none of the seven known windows *)
Theorem C08_no_windows : forall cs ord evs s,
  accept (init cs ord) evs = Some s -> no_windows cs evs = true -> holds_C08 cs evs = true.
Proof. exact C08_no_windows_lemma. Qed.
Print Assumptions C08_no_windows.

(* Second theorem: the zombie hypothesis can be traded for "no stop execution ever found its target
   Pending" (no EStopPending trace point in the history; no_stop_pending is a decidable predicate on the
   history).  This covers e.g. every RestartProcess of a RUNNING process, where the successor is
   created while the old goroutine is still between its Completed write and inst_exit (w_zombie is set
   there, harmlessly).  Relation: RelC08b.R8b = R8 + "an instance whose onProcessEnd was entered is
   inside or past its own onProcessEnd" + "no thread is in the stop-of-a-Pending-process branch". *)
Theorem C08_no_stop_pending : forall cs ord evs s,
  accept (init cs ord) evs = Some s ->
  w_dup (final_obs cs evs) = false -> no_stop_pending evs = true ->
  holds_C08 cs evs = true.
Proof. exact C08_no_stop_pending_lemma. Qed.
Print Assumptions C08_no_stop_pending.

(* both together: the strongest statement proved *)
Theorem C08_combined : forall cs ord evs s,
  accept (init cs ord) evs = Some s -> w_dup (final_obs cs evs) = false ->
  w_zombie (final_obs cs evs) = false \/ no_stop_pending evs = true ->
  holds_C08 cs evs = true.
Proof. exact C08_combined_lemma. Qed.
Print Assumptions C08_combined.

(* declarative form: for every position of the history that is a successful launch by thread th,
   running instance i of process ni, no other instance j of process ni has a command alive there.
   lv_of pre is the view (thread -> instance, instance -> (name, command alive)) of the prefix. *)
Theorem C08_one_live : forall cs ord evs s,
  accept (init cs ord) evs = Some s -> w_dup (final_obs cs evs) = false ->
  w_zombie (final_obs cs evs) = false \/ no_stop_pending evs = true ->
  forall pre th post, evs = pre ++ (th, ELaunch true) :: post ->
  forall i ni a, get th (lv_th (lv_of pre)) = Some i -> get i (lv_inst (lv_of pre)) = Some (ni, a) ->
  forall j, j <> i -> get j (lv_inst (lv_of pre)) <> Some (ni, true).
Proof. exact C08_one_live_combined_lemma. Qed.
Print Assumptions C08_one_live.

(* Restart clause, second half ("launched only after the previous one has exited"), in a stronger form:
   whenever an instance of process n is CREATED (trace point NewProcess(i, n) of runProcess - in the
   hardened model only a thread inside Run's spawn loop, StartProcess(n) after its check, or
   RestartProcess(n) after the stop and the wait can emit it), no instance of n has a command alive.
   The new instance's launch comes later on its own goroutine, so it is launched only after every
   previous instance of the process has exited.  Same hypotheses as C08_combined.
   (The first half, "exactly one new instance per successful call", is a per-thread protocol fact that
   mon_C08 does not encode; see notes/C08.md for what a proof needs.) *)
Theorem C08_restart_after_exit : forall cs ord evs s,
  accept (init cs ord) evs = Some s -> w_dup (final_obs cs evs) = false ->
  w_zombie (final_obs cs evs) = false \/ no_stop_pending evs = true ->
  forall pre th i n post, evs = pre ++ (th, ENewInst i n) :: post ->
  forall j, get j (lv_inst (lv_of pre)) <> Some (n, true).
Proof. exact C08_created_after_exit_lemma. Qed.
Print Assumptions C08_restart_after_exit.

(* ---- the clauses about the calls themselves (hardened model; NO window hypothesis) ---------------------
   cv_of pre (Sup/CallC08.v) is a per-thread view of the history prefix: for the API call a thread is
   executing it records the operation (c_op), the outcome of the call's "is it running?" check
   (c_found: the found-flag of the trace point start_checked / stop_checked / restart_checked, i.e. of
   the thread's registry lookup), and how many instances the thread has created (NewProcess: c_created)
   and spawned (c_spawned) and how many stops it has requested (c_stops) since the call began. *)

(* StartProcess(n) returns success iff its check found no running instance and n is configured; then it
   has spawned exactly one instance; otherwise it has created nothing; it never requests a stop.
   In particular: a start of an unknown name fails and creates nothing. *)
Theorem C08_start_iff_none : forall cs ord evs s, accept (init cs ord) evs = Some s ->
  forall pre th ok post, evs = pre ++ (th, EApiReturn ok) :: post ->
  forall c n, get th (cv_of pre) = Some c -> c_op c = OpStart n ->
  (ok = true <-> c_found c = Some false /\ has n cs = true) /\
  c_created c = (if ok then 1%nat else 0%nat) /\ c_spawned c = (if ok then 1%nat else 0%nat) /\ c_stops c = 0%nat.
Proof. exact C08_start_exact_lemma. Qed.
Print Assumptions C08_start_iff_none.

(* RestartProcess(n) returns success iff n is configured, and then it has spawned EXACTLY ONE new
   instance; for an unknown name it fails and creates nothing; it requests a stop only if its check
   found an instance.  (That the new instance is created only after the old one exited is
   C08_restart_after_exit above.) *)
Theorem C08_restart_one_new : forall cs ord evs s, accept (init cs ord) evs = Some s ->
  forall pre th ok post, evs = pre ++ (th, EApiReturn ok) :: post ->
  forall c n, get th (cv_of pre) = Some c -> c_op c = OpRestart n ->
  ok = has n cs /\ c_created c = (if ok then 1%nat else 0%nat) /\ c_spawned c = (if ok then 1%nat else 0%nat) /\
  (c_found c <> Some true -> c_stops c = 0%nat).
Proof. exact C08_restart_exact_lemma. Qed.
Print Assumptions C08_restart_one_new.

(* StopProcess(n) returns success iff its check found an instance; it never creates anything; a failing
   stop has requested no stop *)
Theorem C08_stop_call : forall cs ord evs s, accept (init cs ord) evs = Some s ->
  forall pre th ok post, evs = pre ++ (th, EApiReturn ok) :: post ->
  forall c n, get th (cv_of pre) = Some c -> c_op c = OpStop n ->
  (ok = true <-> c_found c = Some true) /\ c_spawned c = 0%nat /\ c_created c = 0%nat /\ (ok = false -> c_stops c = 0%nat).
Proof. exact C08_stop_call_lemma. Qed.
Print Assumptions C08_stop_call.

(* EXACT counts (model guard of round 4: a thread creates one instance and spawns it before it creates
   another): when StartProcess / RestartProcess returns, every instance it created has been spawned.
   With it the four call theorems above/below say "exactly one new instance" on success and "no instance
   created" on failure (c_created = c_spawned = if ok then 1 else 0).  Relation StageC08.K: at most one
   stage entry below 3 per thread; created = spawned (+1 while that entry exists); a thread whose API pc
   is ANone or AOk has no such entry. *)
Theorem C08_created_eq_spawned : forall cs ord evs s, accept (init cs ord) evs = Some s ->
  forall pre th ok post, evs = pre ++ (th, EApiReturn ok) :: post ->
  forall c n, get th (cv_of pre) = Some c -> (c_op c = OpStart n \/ c_op c = OpRestart n) ->
  c_created c = c_spawned c.
Proof. exact C08_created_eq_spawned_lemma. Qed.
Print Assumptions C08_created_eq_spawned.

(* instances are created / spawned only by a thread inside Run, inside StartProcess(n) whose check found
   none running and which has not spawned yet, or inside RestartProcess(n) which has not spawned yet *)
Theorem C08_create_in_call : forall cs ord evs s, accept (init cs ord) evs = Some s ->
  forall pre th i n post, (evs = pre ++ (th, ENewInst i n) :: post \/ evs = pre ++ (th, ESpawn i n) :: post) ->
  create_ok (get th (cv_of pre)) n = true.
Proof. exact C08_create_in_call_lemma. Qed.
Print Assumptions C08_create_in_call.

(* ---- the same clauses in terms of the REGISTRY as the history shows it (Sup/RegC08.v) --------------------
   rv_of pre is a view of the history prefix pre:
     rv_reg   the registry "process name -> registered instance": ERegAdd i n registers i under n,
              ERegDel i removes the entry of i's name (i's name is the n of its NewProcess(i, n));
     rv_call  thread -> record of the call it executes: operation, the lookup (name, result) on which the
              call's "is it running?" check was decided, number of stops requested.
   "Active" in the property text = registered (the running-processes map is what the code checks).
   The call's lookup is the trace point ERegGet n r of the call's own thread; its position is given
   explicitly (pre = pre0 ++ (th, ERegGet n r) :: mid), so "at the time of its check" is the state after pre0.
   Other threads may change the registry between that lookup and the creation: that is the dup window of
   C08_main, not a defect of these statements. *)

(* every registry lookup returns what is registered at that moment *)
Theorem C08_lookup_truthful : forall cs ord evs s, accept (init cs ord) evs = Some s ->
  forall pre th n r post, evs = pre ++ (th, ERegGet n r) :: post -> r = get n (rv_reg (rv_of pre)).
Proof. exact C08_lookup_truthful_lemma. Qed.
Print Assumptions C08_lookup_truthful.

(* only configured names are ever registered *)
Theorem C08_registered_known : forall cs ord evs s, accept (init cs ord) evs = Some s ->
  forall pre post, evs = pre ++ post -> forall n i, get n (rv_reg (rv_of pre)) = Some i -> has n cs = true.
Proof. exact C08_registered_known_lemma. Qed.
Print Assumptions C08_registered_known.

(* "A start request launches a new instance iff none is active and otherwise fails without side effects;
   requests naming unknown processes fail and change nothing":
   a returning StartProcess(n) has looked n up in the registry (r = what was registered under n then); it
   succeeds iff nothing was registered and n is configured, and then it has spawned exactly one instance;
   otherwise it has created no instance; it never requests a stop. *)
Theorem C08_start_iff_none_registered : forall cs ord evs s, accept (init cs ord) evs = Some s ->
  forall pre th ok post, evs = pre ++ (th, EApiReturn ok) :: post ->
  forall c n, get th (cv_of pre) = Some c -> c_op c = OpStart n ->
  exists pre0 mid r,
    pre = pre0 ++ (th, ERegGet n r) :: mid /\ r = get n (rv_reg (rv_of pre0)) /\
    (ok = true <-> r = None /\ has n cs = true) /\
    c_created c = (if ok then 1%nat else 0%nat) /\ c_spawned c = (if ok then 1%nat else 0%nat) /\ c_stops c = 0%nat.
Proof. exact C08_start_registered_exact_lemma. Qed.
Print Assumptions C08_start_iff_none_registered.

(* StopProcess(n) succeeds iff an instance was registered under n when it looked; it creates nothing;
   a failing stop (in particular: of an unknown name, C08_registered_known) has requested no stop *)
Theorem C08_stop_iff_registered : forall cs ord evs s, accept (init cs ord) evs = Some s ->
  forall pre th ok post, evs = pre ++ (th, EApiReturn ok) :: post ->
  forall c n, get th (cv_of pre) = Some c -> c_op c = OpStop n ->
  exists pre0 mid r,
    pre = pre0 ++ (th, ERegGet n r) :: mid /\ r = get n (rv_reg (rv_of pre0)) /\
    (ok = true <-> r <> None) /\
    c_spawned c = 0%nat /\ c_created c = 0%nat /\ (ok = false -> c_stops c = 0%nat).
Proof. exact C08_stop_registered_lemma. Qed.
Print Assumptions C08_stop_iff_registered.

(* RestartProcess(n) succeeds iff n is configured and has then spawned exactly one new instance; for an
   unknown name it fails, has created nothing, and found nothing registered (so it stopped nothing) *)
Theorem C08_restart_registered : forall cs ord evs s, accept (init cs ord) evs = Some s ->
  forall pre th ok post, evs = pre ++ (th, EApiReturn ok) :: post ->
  forall c n, get th (cv_of pre) = Some c -> c_op c = OpRestart n ->
  exists pre0 mid r,
    pre = pre0 ++ (th, ERegGet n r) :: mid /\ r = get n (rv_reg (rv_of pre0)) /\
    ok = has n cs /\ c_created c = (if ok then 1%nat else 0%nat) /\ c_spawned c = (if ok then 1%nat else 0%nat) /\
    (ok = false -> r = None).
Proof. exact C08_restart_registered_exact_lemma. Qed.
Print Assumptions C08_restart_registered.

(* which instance a call stops: a stop request (ENoRestart i) is made only inside StopProcess(n) or
   RestartProcess(n), and exactly for the instance i that was registered under n when the call looked it up *)
Theorem C08_stop_target : forall cs ord evs s, accept (init cs ord) evs = Some s ->
  forall pre th i post, evs = pre ++ (th, ENoRestart i) :: post ->
  exists k n pre0 mid,
    get th (rv_call (rv_of pre)) = Some k /\ (k_op k = OpStop n \/ k_op k = OpRestart n) /\
    pre = pre0 ++ (th, ERegGet n (Some i)) :: mid /\ get n (rv_reg (rv_of pre0)) = Some i.
Proof. exact C08_stop_target_lemma. Qed.
Print Assumptions C08_stop_target.

(* the six calls of ex_seq: call record, result, registry at the return *)
Example C08_registry_example : ret_lookups rv0 ex_seq =
  [(11%N, Some (mkK (OpStart 1) (Some (1%N, Some 100%N)) 0), false, [(1%N, 100%N)]);
   (12%N, Some (mkK (OpStop 1) (Some (1%N, Some 100%N)) 1), true, [(1%N, 100%N)]);
   (1%N,  Some (mkK OpRun None 0), true, []);
   (13%N, Some (mkK (OpStart 1) (Some (1%N, None)) 0), true, [(1%N, 101%N)]);
   (14%N, Some (mkK (OpRestart 1) (Some (1%N, Some 101%N)) 1), true, [(1%N, 102%N)]);
   (15%N, Some (mkK (OpStop 9) (Some (9%N, None)) 0), false, [(1%N, 102%N)])].
Proof. exact ex_seq_lookups. Qed.

(* non-vacuity of the call theorems: the six calls of the 92-event history ex_seq and their views *)
Example C08_calls_example : ret_views [] ex_seq =
  [(11%N, Some (mkCall (OpStart 1) (Some true) 0%nat 0%nat 0%nat), false);
   (12%N, Some (mkCall (OpStop 1) (Some true) 0%nat 0%nat 1%nat), true);
   (1%N,  Some (mkCall OpRun None 1%nat 1%nat 0%nat), true);
   (13%N, Some (mkCall (OpStart 1) (Some false) 1%nat 1%nat 0%nat), true);
   (14%N, Some (mkCall (OpRestart 1) (Some true) 1%nat 1%nat 1%nat), true);
   (15%N, Some (mkCall (OpStop 9) (Some false) 0%nat 0%nat 0%nat), false)].
Proof. exact ex_seq_calls. Qed.

(* the monitor implies the declarative statement for ANY history (no model involved) *)
Theorem C08_monitor_meaning : forall cs evs, holds_C08 cs evs = true -> one_live evs.
Proof. exact holds_C08_one_live. Qed.
Print Assumptions C08_monitor_meaning.

(* Without a window hypothesis the statement is false of the model: two concurrent StartProcess calls
   for one process both find the registry empty and both launch (finding F25; history ExC08.ex_dup). *)
Theorem C08_refuted : exists cs ord evs s, accept (init cs ord) evs = Some s /\ holds_C08 cs evs = false.
Proof. exact C08_refuted_lemma. Qed.
Print Assumptions C08_refuted.

(* Neither hypothesis of C08_main can be dropped: a failing accepted history that is outside the
   zombie window (ex_dup), one outside the dup window (ex_zombie: RestartProcess on an instance that is
   about to launch; its flags are zombie and commit). *)
Theorem C08_dup_needed : exists cs ord evs s, accept (init cs ord) evs = Some s /\
  w_zombie (final_obs cs evs) = false /\ holds_C08 cs evs = false.
Proof. exact C08_dup_needed_lemma. Qed.
Print Assumptions C08_dup_needed.

Theorem C08_zombie_needed : exists cs ord evs s, accept (init cs ord) evs = Some s /\
  w_dup (final_obs cs evs) = false /\ holds_C08 cs evs = false.
Proof. exact C08_zombie_needed_lemma. Qed.
Print Assumptions C08_zombie_needed.

(* The first version of the model also accepted a failing history on which w_zombie was the ONLY flag
   (ex_zombie_only, a "Pending" write for an old instance long after its creation).  The hardened model
   (staged creation: NewProcess, Pending, registration, spawn in program order on one thread) rejects it: *)
Example C08_zombie_only_rejected :
  accept (init cs_disabled false) ex_zombie_only = None /\
  fst (accept_prefix (init cs_disabled false) ex_zombie_only 0) = 31%nat /\
  nth 31 ex_zombie_only (0%N, EResume) = (99%N, EState 100%N SPending).
Proof. exact ex_zombie_only_rejected. Qed.

(* (kept from the interim statement file) every accepted history keeps the observer's picture, on which
   the monitor is evaluated, in agreement with the model state *)
Theorem C08_observer_agrees_with_model : forall cs ord evs s,
  accept (init cs ord) evs = Some s -> Rc cs s (final_obs cs evs).
Proof. exact sup_agreement. Qed.
Print Assumptions C08_observer_agrees_with_model.

(* non-vacuity of C08_no_stop_pending where C08_main does not apply: a RestartProcess of a running
   process whose successor is created inside the zombie window (44 events) *)
Example C08_nonvacuous_restart :
  length ex_restart = 44%nat /\
  (exists s, accept (init cs_plain false) ex_restart = Some s) /\
  w_dup (final_obs cs_plain ex_restart) = false /\ w_zombie (final_obs cs_plain ex_restart) = true /\
  no_stop_pending ex_restart = true /\ holds_C08 cs_plain ex_restart = true.
Proof. exact ex_restart_ok. Qed.

(* non-vacuity: a 92-event sequential history (Run; StartProcess on a running process fails; StopProcess;
   the instance ends; StartProcess launches a new instance; RestartProcess stops it, waits, launches the
   next; StopProcess of an unknown name fails) is accepted by the model, sets no window flag at all,
   and satisfies the monitor - so the hypotheses of C08_main are satisfiable by non-trivial histories. *)
Example C08_nonvacuous :
  length ex_seq = 92%nat /\
  (exists s, accept (init cs_plain false) ex_seq = Some s) /\
  W_C08 (final_obs cs_plain ex_seq) = false /\
  any_window (final_obs cs_plain ex_seq) = false /\
  holds_C08 cs_plain ex_seq = true.
Proof. exact ex_seq_ok. Qed.
