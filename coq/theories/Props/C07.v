(* C07 Run plan: cycles / dangling dependencies rejected; topological order; selection = closure.
   This file contains only the property statements; every proof is `exact <lemma>`.

   Vocabulary (coq/theories/Graph/Model.v, Proofs.v):
     graph      = Project.Processes after cloneReplicas: list of (key = replica name, Name, depends_on
                  names, disabled, foreground, namespace);  wf g = the map keys are distinct
     oracle     = one arbitrary permutation per Go `range` over a map; ord_ok ord = it returns the same
                  elements (nothing else is assumed about the iteration order)
     edge g a b = process a lists b under depends_on;  has_cycle g = some name reaches itself in >= 1
                  steps;  dangling g = some depends_on name is not a map key
     fuel       = cyc_fuel g / wp_fuel g are the bounds the theorems PROVE sufficient: the result is
                  never the out-of-fuel value (the statements say `= Some ...` / `= Ok ...`). *)
From Coq Require Import List NArith Bool.
From PC.Graph Require Import Model Proofs.
Import ListNotations.

(* "Loading fails for every configuration whose depends_on relation contains a cycle or names an
   undefined process, and succeeds for every acyclic, otherwise valid one": for every project and
   every iteration order the validators return a verdict, and it is an error exactly when there is a
   cycle, a dependency that is no map key, or (strict mode only) an enabled process that depends on
   a disabled one. *)
Theorem C07_cycle_iff : forall (ord : oracle) (g : graph) (strict : bool),
  ord_ok ord -> wf g ->
  exists v, validate ord g (cyc_fuel g) strict = Some v /\
    (v <> VOk <-> has_cycle g \/ dangling g \/ (strict = true /\ disabled_dep g)).
Proof. exact validate_iff. Qed.
Print Assumptions C07_cycle_iff.

(* The same at the level of the configuration file (process Names + replica names): FALSE of the
   code when a dependency names a replicated process (finding F18): the configuration below is
   acyclic, every depends_on name is a defined process, and it is rejected as "not defined". *)
Theorem C07_load_refuted : exists cfg : list cproc,
  wf (clone cfg) /\ (forall c, In c cfg -> c_keys c <> []) /\
  ~ has_cycle (clone cfg) /\ ~ cfg_undefined cfg /\
  validate id_oracle (clone cfg) (cyc_fuel (clone cfg)) false = Some VUndefined.
Proof. exact load_refuted. Qed.
Print Assumptions C07_load_refuted.

(* ... and TRUE whenever no dependency uses the Name of a process that has more than one replica
   (decidable side condition no_base_dep). *)
Theorem C07_load_partial : forall (ord : oracle) (cfg : list cproc) (strict : bool),
  ord_ok ord -> wf (clone cfg) -> (forall c, In c cfg -> c_keys c <> []) ->
  no_base_dep cfg = true ->
  exists v, validate ord (clone cfg) (cyc_fuel (clone cfg)) strict = Some v /\
    (v <> VOk <-> has_cycle (clone cfg) \/ cfg_undefined cfg \/ (strict = true /\ disabled_dep (clone cfg))).
Proof. exact load_partial. Qed.
Print Assumptions C07_load_partial.

(* "The dependency order lists each process that is to run exactly once with all of its
   dependencies before it": for every loaded project (distinct keys, every dependency a key, no
   cycle) and every iteration order, GetDependenciesOrderNames returns no error and a list without
   duplicates that contains exactly the non-deferred processes, each after every non-deferred
   process it depends on. *)
Theorem C07_order : forall (ord : oracle) (g : graph),
  ord_ok ord -> wf g -> closed g -> ~ has_cycle g ->
  exists o, dep_order ord g (wp_fuel g) = Some (false, o) /\
    NoDup o /\
    (forall k, In k o <-> exists p, In p g /\ key p = k /\ deferred p = false) /\
    (forall p q, In p g -> In q g -> In (key q) (deps p) -> deferred p = false -> deferred q = false ->
                 precedes o (key q) (key p)).
Proof. exact order_ok. Qed.
Print Assumptions C07_order.

(* "When specific processes are requested, exactly those processes plus the transitive closure of
   their dependencies are started and every other process is listed as disabled": the project after
   selectRunningProcesses is the old one with Disabled := false on the non-foreground processes
   reachable from the requested ones (ps = what the requested names stand for) and Disabled := true
   on every other process.  (A disabled dependency inside the closure is thereby enabled: documented
   reading.) *)
Theorem C07_selection : forall (ord : oracle) (g : graph),
  ord_ok ord -> wf g -> closed g -> ~ has_cycle g ->
  forall r0 rr ps, get_procs ord g 0%N (r0 :: rr) = Some ps ->
  exists sel, select ord (wp_fuel g) g (r0 :: rr) = Ok (map (fun p => set_dis (negb (mem (key p) sel)) p) g) /\
    forall k, In k sel <-> exists p, In p g /\ key p = k /\ fg p = false /\
                                     exists r, In r ps /\ path (edge g) (key r) k.
Proof. exact select_closure. Qed.
Print Assumptions C07_selection.

(* a requested name that stands for no process makes NewProjectRunner fail *)
Theorem C07_selection_unknown : forall (ord : oracle) (g : graph) r0 rr,
  get_procs ord g 0%N (r0 :: rr) = None -> select ord (wp_fuel g) g (r0 :: rr) = Err.
Proof. exact select_unknown. Qed.
Print Assumptions C07_selection_unknown.

(* "(unless no-deps is given)": with no-deps exactly the processes whose Name or replica name is
   requested stay enabled, their dependencies are dropped, everything else is disabled.  (Model of
   the code after fixes/F34-nodeps-replica-name.diff; the unrepaired code ignores replica names.) *)
Theorem C07_selection_nodeps : forall (g : graph) r0 rr q, In q (select_nodeps g (r0 :: rr)) ->
  (dis q = false <-> In (pname q) (r0 :: rr) \/ In (key q) (r0 :: rr)) /\ (dis q = false -> deps q = []) /\
  exists p, In p g /\ key q = key p /\ pname q = pname p /\ fg q = fg p.
Proof. exact select_nodeps_spec. Qed.
Print Assumptions C07_selection_nodeps.

(* "disabled and foreground processes and processes outside the selected namespaces are never
   started automatically": for every configuration, namespaces, request, no-deps flag and iteration
   order - whatever the pipeline Load -> NewProjectRunner -> Run hands to runProcess is a process of
   the configuration that is admitted, not foreground, and not listed as disabled (with no request:
   not disabled in the configuration). *)
Theorem C07_never_started : forall (ord : oracle) (i : input) g1 pl,
  ord_ok ord -> pipeline ord i = OPlan g1 pl ->
  forall k, In k (p_run pl) ->
  exists p, In p (p_project pl) /\ key p = k /\ dis p = false /\ fg p = false /\
            (i_nss i = [] \/ In (ns p) (i_nss i)) /\
            exists c, In c (i_cfg i) /\ In k (c_keys c) /\ c_fg c = false /\ c_ns c = ns p /\
                      (i_req i = [] -> c_dis c = false).
Proof. exact never_started. Qed.
Print Assumptions C07_never_started.

(* non-vacuity: a project (5 processes, one with two replicas, one disabled, one foreground) that
   meets every hypothesis above; its order, and the selection of process 1 under two iteration orders *)
Example C07_example :
  let g := clone ex_cfg in
  wf g /\ closed g /\ ~ has_cycle g /\ ord_ok rev_oracle /\
  validate rev_oracle g (cyc_fuel g) false = Some VOk /\
  dep_order id_oracle g (wp_fuel g) = Some (false, [3; 1; 6; 7]%N) /\
  dep_order rev_oracle g (wp_fuel g) = Some (false, [7; 6; 3; 1]%N) /\
  (exists g', select rev_oracle (wp_fuel g) g [1%N] = Ok g' /\
              run_set id_oracle g' (wp_fuel g') = Some [3; 2; 1]%N) /\
  validate id_oracle (clone (mkCproc 9 [1%N] false false 0 [9%N] :: mkCproc 1 [2%N; 9%N] false false 0 [1%N] :: tl ex_cfg))
           (cyc_fuel (clone (mkCproc 9 [1%N] false false 0 [9%N] :: mkCproc 1 [2%N; 9%N] false false 0 [1%N] :: tl ex_cfg))) false
    = Some VCycle.
Proof.
  cbv zeta. split; [exact ex_wf|]. split; [exact ex_closed|]. split; [exact ex_acyclic|].
  split; [exact rev_oracle_ok|]. split; [vm_compute; reflexivity|]. split; [vm_compute; reflexivity|].
  split; [vm_compute; reflexivity|]. split; [|vm_compute; reflexivity].
  eexists. split; vm_compute; reflexivity.
Qed.
