(* C05  Unsatisfiable dependency => the dependent is skipped, never launched.
   This file contains only the property statements; every proof is `exact <lemma>` (Sup/RelC05.v).

   Vocabulary.  A history is the list of trace points (thread, event) that the supervisor logs
   (Sup/Model.v); [accept (init cs ord) evs = Some s] says that the model of the supervisor can produce
   it for the project configuration [cs].  The events that matter here:
     (th, EBegin i)          thread th starts to serve process instance i (for its whole life)
     (th, EDepDone k false)  the wait of th's instance for its dependency k returned an error: the
                             dependency ended / was stopped without satisfying the declared condition
                             (non-zero exit code under process_completed_successfully, never ready under
                             process_healthy / process_log_ready)
     (th, ELaunch ok)        th's instance calls Commander.Start() (ok: whether it succeeded)
     (th, EState i st)       status st is written for instance i (Skipped and Error also store exit code 1
                             in the state record shared by all instances of the name)
     (th, EExitCode c)       th's instance stores the exit code c of its command in that shared record
     (th, EProcEnded i st)   onProcessEnd(st) of instance i is complete: i is reported as st

   What the monitor checks.  The observer (Sup/Monitors.v) remembers per instance whether one of its
   dependency waits reported failure ([o_depfail]) and per process name the reported exit code.
   [holds_C05 cs evs = true] means that at every position of the history
     (a)  a launch attempt (ELaunch, successful or not) is never made by an instance with o_depfail;
     (b1) at EProcEnded i st: if i has o_depfail then st is Skipped (or Terminating: i was stopped while it
          was still Pending), and if i does not have o_depfail then st is not Skipped;
     (b2) at EProcEnded i Skipped of an instance with o_depfail the reported exit code of its name is not 0.
   [mon_C05_core] is (a)+(b1), [mon_C05_code] is (b2); mon_C05 = mon_C05_core && mon_C05_code.

   Windows.  [W_C05 o = w_dup o || w_zombie o]: the history went through the known check-then-act windows
   F25 (a second instance of a name was created while an earlier one had not ended) or F38 (... while the
   goroutine of an ended one still lived).  Only clause (b2) needs this hypothesis, because the exit code
   is shared by all instances of a name: a concurrent instance of the SAME name can overwrite the 1 of the
   skipped instance (C05_refuted is such a history).

   Not covered by these theorems (monitor-only, checked on the implementation's histories by checks/C05.py):
   that the reported code stays non-zero after EProcEnded, transitivity as a statement about dependents
   (it follows from (b2) + the way EDepDone is computed from the shared record, and is exercised by the
   example below), and the project exit code under exit_on_skipped (C04's monitor). *)
From Coq Require Import List ZArith NArith Bool.
From PC.Base Require Import Assoc.
From PC.Sup Require Import Model Monitors Sim LemC05 RelC05.
Import ListNotations.

(* The full monitor holds on every accepted history that stayed out of the dup/zombie windows; all
   configurations (any dependency graph, any conditions), all interleavings, all lengths. *)
Theorem C05_main : forall cs ord evs s,
  accept (init cs ord) evs = Some s -> W_C05 (final_obs cs evs) = false -> holds_C05 cs evs = true.
Proof. exact C05_main_lemma. Qed.
Print Assumptions C05_main.

(* Clauses (a) and (b1) hold on EVERY accepted history - no window hypothesis. *)
Theorem C05_core : forall cs ord evs s,
  accept (init cs ord) evs = Some s -> holds cs mon_C05_core evs = true.
Proof. exact C05_core_lemma. Qed.
Print Assumptions C05_core.

Theorem C05_monitor_split : forall cs o te, mon_C05 cs o te = mon_C05_core cs o te && mon_C05_code cs o te.
Proof. exact mon_C05_split. Qed.
Print Assumptions C05_monitor_split.

(* Without the window hypothesis the full monitor is false of the model: clause (b2) fails in the history
   RelC05.Witness.wit1 (53 events, goes through the F25 window only). *)
Theorem C05_refuted : exists cs ord evs s,
  accept (init cs ord) evs = Some s /\ holds_C05 cs evs = false.
Proof. exact C05_refuted_lemma. Qed.
Print Assumptions C05_refuted.

(* Neither flag can be dropped from W_C05: one accepted history violates the monitor having gone through
   the dup window only (wit1), another through the zombie window only (RelC05.Witness.wit2, 79 events). *)
Theorem C05_windows_needed :
  (exists cs ord evs s, accept (init cs ord) evs = Some s /\ w_zombie (final_obs cs evs) = false /\ holds_C05 cs evs = false) /\
  (exists cs ord evs s, accept (init cs ord) evs = Some s /\ w_dup (final_obs cs evs) = false /\ holds_C05 cs evs = false).
Proof. exact C05_windows_needed_lemma. Qed.
Print Assumptions C05_windows_needed.

(* (a) in words: once a thread has logged a failed dependency wait it never logs a launch attempt
   (Commander.Start) again; a thread serves one instance, so: the dependent's command is never launched. *)
Theorem C05_never_launched : forall cs ord p1 th k p2 ok p3 s,
  accept (init cs ord) (p1 ++ (th, EDepDone k false) :: p2 ++ (th, ELaunch ok) :: p3) = Some s -> False.
Proof. exact C05_never_launched_lemma. Qed.
Print Assumptions C05_never_launched.

(* (b1) in words: if the thread that serves instance i logged a failed dependency wait, every later
   "process ended" report of i says Skipped - or Terminating, when it was stopped while still Pending. *)
Theorem C05_ended_status : forall cs ord p0 th i p1 k p2 th' s0 p3 s,
  accept (init cs ord)
         (p0 ++ (th, EBegin i) :: p1 ++ (th, EDepDone k false) :: p2 ++ (th', EProcEnded i s0) :: p3) = Some s ->
  s0 = SSkipped \/ s0 = STerminating.
Proof. exact C05_ended_status_lemma. Qed.
Print Assumptions C05_ended_status.

(* exit_on_skipped: when the instance of a thread that logged a failed dependency wait fires its exit
   trigger (which the model lets it do only if its configuration has exit_on_skipped), the trigger carries
   exit code 1.  (Which trigger's code becomes the project's exit code is C04's subject.) *)
Theorem C05_trigger_code : forall cs ord p1 th k p2 c p3 s,
  accept (init cs ord) (p1 ++ (th, EDepDone k false) :: p2 ++ (th, EExitTrigger c) :: p3) = Some s -> c = 1%Z.
Proof. exact C05_trigger_code_lemma. Qed.
Print Assumptions C05_trigger_code.

(* Non-vacuity: a chain A <- B <- C (process_completed_successfully), C has exit_on_skipped.  A exits with
   code 1; B is refused, skipped, reported Skipped with code 1; C is refused in turn (transitivity) and
   skipped; C's exit_on_skipped trigger fires with code 1.  49 events, accepted, outside every window, and
   the monitor (which is exercised at 1 launch and 3 proc_ended events) holds. *)
Module Example.
Open Scope N_scope.
Definition cA := mkConf [] PNo 0 0 false false false false false false false.
Definition cB := mkConf [(1, CSuccess)] PNo 0 0 false false false false false false false.
Definition cC := mkConf [(2, CSuccess)] PNo 0 0 false true false false false false false.
Definition cs3 : amap pconf := [(1, cA); (2, cB); (3, cC)].
Definition ex1 : list (tid * event) := [
 (100, EApiBegin OpRun);
 (100, ENewInst 10 1); (100, EState 10 SPending); (100, ERegAdd 10 1); (100, ESpawn 10 1);
 (100, ENewInst 11 2); (100, EState 11 SPending); (100, ERegAdd 11 2); (100, ESpawn 11 2);
 (100, ENewInst 12 3); (100, EState 12 SPending); (100, ERegAdd 12 3); (100, ESpawn 12 3);
 (100, ERunSpawned);
 (1, EBegin 10); (2, EBegin 11); (3, EBegin 12);
 (2, EDoneGet 1 None); (2, ELookupMid 1); (2, ERegGet 1 (Some 10)); (2, EDepWait 1 (Some 10));
 (3, EDoneGet 2 None); (3, ELookupMid 2); (3, ERegGet 2 (Some 11)); (3, EDepWait 2 (Some 11));
 (1, ERunChecked false); (1, EStarted); (1, EState 10 SRunning); (1, ELaunch true);
 (900, ECmdExit 10 1%Z);
 (1, EWaitReturn 1%Z); (1, EExitCode 1%Z); (1, ERestartDecision false);
 (1, EProcEnd 10 SCompleted); (1, EState 10 SCompleted); (1, EProcEnded 10 SCompleted);
 (2, EDepDone 1 false); (2, ESkip); (2, EProcEnd 11 SSkipped); (2, EState 11 SSkipped); (2, EProcEnded 11 SSkipped);
 (3, EDepDone 2 false); (3, ESkip); (3, EProcEnd 12 SSkipped); (3, EState 12 SSkipped); (3, EProcEnded 12 SSkipped);
 (3, EDoneAdd 12); (3, EExitTrigger 1%Z); (3, EShutdownCall)
].
End Example.

Example C05_nonvacuous :
  (exists s, accept (init Example.cs3 false) Example.ex1 = Some s) /\
  W_C05 (final_obs Example.cs3 Example.ex1) = false /\
  length Example.ex1 = 49 /\
  holds_C05 Example.cs3 Example.ex1 = true /\
  (* the history contains failed dependency waits and Skipped reports, and the reported codes are 1 *)
  In (2%N, EDepDone 1%N false) Example.ex1 /\ In (3%N, EProcEnded 12%N SSkipped) Example.ex1 /\
  o_depfail (oi_get (final_obs Example.cs3 Example.ex1) 12%N) = true /\
  o_launches (oi_get (final_obs Example.cs3 Example.ex1) 12%N) = 0 /\
  r_code (on_get (final_obs Example.cs3 Example.ex1) 2%N) = 1%Z /\
  r_code (on_get (final_obs Example.cs3 Example.ex1) 3%N) = 1%Z.
Proof.
  split; [|vm_compute; intuition].
  destruct (accept (init Example.cs3 false) Example.ex1) as [s|] eqn:E; [eauto|vm_compute in E; discriminate E].
Qed.
