(* C16 Loading is deterministic, applies defaults, gives each replica its own configuration.
   This file contains only the property statements; every proof is `exact <lemma>`.
   The model (PC.Load.Model) describes the loader AFTER the repairs fixes/F4-clone-replicas-deep-copy.diff
   and fixes/F34-nonpositive-replicas-default.diff; the unrepaired code violates the statements below
   (shown by the check as VIOLATION with a replay, corpus/C16/). *)
From Coq Require Import List ZArith NArith Bool Permutation.
From Coq Require Import String.
From PC.Load Require Import Model Proofs Check MonLink.
Import ListNotations.
Open Scope string_scope.

(* "Loading the same files always yields the same project": for EVERY choice of the iteration order of
   every range loop over the process map (five loops; an order is any function that returns a permutation
   of the map it is given), and for the processes listed in the file in any order, the loaded project is
   the same map and the same shell configuration. *)
Theorem C16_load_deterministic : forall (os os' : orders) (c c' : config),
  good_orders os -> good_orders os' -> wf (procs c) -> wf (procs c') -> same_file c c' ->
  o_shell (load os c) = o_shell (load os' c') /\
  (forall k, lookup k (o_procs (load os c)) = lookup k (o_procs (load os' c'))) /\
  wf (o_procs (load os c)) /\ wf (o_procs (load os' c')).
Proof. exact load_deterministic. Qed.
Print Assumptions C16_load_deterministic.

(* "Every loaded process has its name, a namespace (default: 'default'), at least one replica and a
   positive launch timeout". *)
Theorem C16_defaults : forall (os : orders) (c : config) (k : str) (r : proc),
  good_orders os -> wf (procs c) -> lookup k (o_procs (load os c)) = Some r ->
  exists p, lookup (name r) (procs c) = Some p /\
    namespace r = match namespace p with [] => s_default | _ => namespace p end /\
    (1 <= replicas r)%Z /\ replicas r = (if (replicas p <? 1)%Z then 1%Z else replicas p) /\
    (1 <= launch_timeout r)%Z /\
    launch_timeout r = (if (launch_timeout p <? 1)%Z then default_launch_timeout else launch_timeout p).
Proof. exact load_defaults. Qed.
Print Assumptions C16_defaults.

(* "replica names are unique and derived from the replica count": the key of every entry is its replica
   name, which is CalculateReplicaName of (name, replicas, replica number < replicas); keys are distinct
   ([wf] in C16_load_deterministic); different numbers give different names; every replica number of a
   process with several replicas is present. *)
Theorem C16_replica_names : forall (os : orders) (c : config) (k : str) (r : proc),
  good_orders os -> wf (procs c) -> lookup k (o_procs (load os c)) = Some r ->
  replica_num r < Z.to_nat (replicas r) /\ replica_name r = k /\
  k = rname (name r) (Z.to_nat (replicas r)) (replica_num r).
Proof. exact load_replica_names. Qed.
Print Assumptions C16_replica_names.

Theorem C16_names_distinct : forall (nm : str) (reps i j : nat),
  i < reps -> j < reps -> rname nm reps i = rname nm reps j -> i = j.
Proof. exact names_distinct. Qed.
Print Assumptions C16_names_distinct.

Theorem C16_names_distinct_across_processes : forall (nm nm' : str) (reps reps' i j : nat),
  2 <= reps -> 2 <= reps' -> rname nm reps i = rname nm' reps' j -> nm = nm' /\ i = j.
Proof. exact rname_inj. Qed.
Print Assumptions C16_names_distinct_across_processes.

Theorem C16_all_replicas_present : forall (os : orders) (c : config) (n : str) (p : proc) (i : nat),
  good_orders os -> wf (procs c) -> lookup n (procs c) = Some p ->
  multi (dflt n p) = true -> i < nreps (dflt n p) ->
  lookup (rname n (nreps (dflt n p)) i) (o_procs (load os c)) = Some (final c n p i).
Proof. exact load_complete_multi. Qed.
Print Assumptions C16_all_replicas_present.

Theorem C16_single_present : forall (os : orders) (c : config) (k : str) (p : proc),
  good_orders os -> wf (procs c) -> lookup k (procs c) = Some p ->
  multi (dflt k p) = false -> no_clash c k ->
  lookup k (o_procs (load os c)) = Some (final c k p 0).
Proof. exact load_complete_single. Qed.
Print Assumptions C16_single_present.

(* "every templated field (command, working directory, log location, description, probe
   command/host/path/port) of every replica is rendered with that replica's own variables and replica
   number": each field of the loaded entry is [render] of the SOURCE field of its process under
   env = {PC_REPLICA_NUM -> own number} over the process's vars over the project's vars. *)
Theorem C16_rendered_with_own_variables : forall (os : orders) (c : config) (k : str) (r : proc),
  good_orders os -> wf (procs c) -> lookup k (o_procs (load os c)) = Some r ->
  exists p, lookup (name r) (procs c) = Some p /\
    let e := env (g_vars c) (pvars p) (replica_num r) in
    command r = render e (command p) /\
    working_dir r = render e (working_dir p) /\
    log_location r = render e (log_location p) /\
    description r = render e (description p) /\
    readiness r = option_map (wd_probe e (working_dir p)) (readiness p) /\
    liveness r = option_map (wd_probe e (working_dir p)) (liveness p) /\
    pvars r = upsert pc_replica_num (dec (replica_num r)) (pvars p).
Proof. exact load_rendered. Qed.
Print Assumptions C16_rendered_with_own_variables.

Theorem C16_probe_exec_rendered : forall e wd pr x,
  p_exec pr = Some x ->
  p_exec (wd_probe e wd pr) = Some (mkE (render e (e_cmd x)) (match e_wd x with [] => wd | _ => e_wd x end)).
Proof. exact wd_probe_exec. Qed.
Print Assumptions C16_probe_exec_rendered.

Theorem C16_probe_http_rendered : forall e wd pr h,
  p_exec pr = None -> p_http pr = Some h ->
  p_http (wd_probe e wd pr) =
    Some (http_defaults (mkH (render e (h_host h)) (render e (h_path h)) (render e (h_scheme h))
                             (render e (h_port h)) (h_num h))).
Proof. exact wd_probe_http. Qed.
Print Assumptions C16_probe_http_rendered.

(* what [render] and [env] mean: substitution of the variables into the segments of the template, the
   replica number shadowing process vars shadowing project vars; distinct replicas get distinct numbers *)
Theorem C16_render_is_substitution : forall e s segs,
  s <> [] -> parse s = Some segs -> render e s = List.concat (map (subst e) segs).
Proof. exact render_subst. Qed.
Print Assumptions C16_render_is_substitution.

Theorem C16_env_precedence : forall G P i x,
  lookup x (env G P i) =
  if str_eqb pc_replica_num x then Some (dec i)
  else match lookup x P with Some v => Some v | None => lookup x G end.
Proof. exact env_lookup. Qed.
Print Assumptions C16_env_precedence.

Theorem C16_replica_number_printed_injectively : forall i j, dec i = dec j -> i = j.
Proof. exact dec_inj. Qed.
Print Assumptions C16_replica_number_printed_injectively.

(* "no replica's configuration is affected by another replica's": (1) through the passes that follow
   cloneReplicas the entry of key k depends on the entry of key k only - for all iteration orders, whatever
   the rest of the map is; (2) in particular overwriting any other replica j (its number, its vars,
   anything) changes nothing for k; (3) the replicas of a process do not depend on the other processes
   of the file. *)
Theorem C16_noninterference : forall os os' G sh earg (m m' : pmap) k,
  good_orders os -> good_orders os' -> wf m -> wf m' ->
  lookup k m = lookup k m' ->
  lookup k (post_clone os G sh earg m) = lookup k (post_clone os' G sh earg m').
Proof. exact post_clone_noninterference. Qed.
Print Assumptions C16_noninterference.

Theorem C16_other_replica_changed : forall os os' G sh earg (m : pmap) j q k,
  good_orders os -> good_orders os' -> wf m -> k <> j ->
  lookup k (post_clone os G sh earg (upsert j q m)) = lookup k (post_clone os' G sh earg m).
Proof. exact replica_change_invisible. Qed.
Print Assumptions C16_other_replica_changed.

Theorem C16_independent_of_other_processes : forall os os' c c' n p i,
  good_orders os -> good_orders os' -> wf (procs c) -> wf (procs c') -> same_globals c c' ->
  lookup n (procs c) = Some p -> lookup n (procs c') = Some p ->
  multi (dflt n p) = true -> i < nreps (dflt n p) ->
  lookup (rname n (nreps (dflt n p)) i) (o_procs (load os c)) =
  lookup (rname n (nreps (dflt n p)) i) (o_procs (load os' c')).
Proof. exact load_replica_independent. Qed.
Print Assumptions C16_independent_of_other_processes.

(* non-vacuity: a file with a two-replica process with process vars and an exec probe, and a one-replica
   process with an http probe; two different (good) families of iteration orders; the hypotheses of the
   theorems hold and the replicas differ exactly as the property demands *)
Definition ex_cfg : config :=
  mkCfg [(b "HOST", b "10.0.0.")] None (mkSh (b "bash") (b "-c") (b "sudo") (b "-S")) false
    [ (b "a", mkProc [] [] 2 0 (b "run {{.PC_REPLICA_NUM}} {{.V}} {{.HOST}}") [] (b "/w/{{.PC_REPLICA_NUM}}") [] []
                     [(b "V", b "7")] false
                     (Some (mkP (Some (mkE (b "check {{.PC_REPLICA_NUM}}") [])) None 0 0 0 0 0)) None 0 [] [] []);
      (b "web", mkProc [] (b "ns") 0 9 (b "serve") [] [] [] [] [] false None
                     (Some (mkP None (Some (mkH (b "{{.HOST}}{{.PC_REPLICA_NUM}}") [] [] (b "808{{.PC_REPLICA_NUM}}") 0)) 0 0 0 0 0))
                     0 [] [] []) ].

Example C16_example :
  good_orders id_orders /\ good_orders rev_orders /\ wf (procs ex_cfg) /\ in_subset ex_cfg = true /\
  (forall k, lookup k (o_procs (load id_orders ex_cfg)) = lookup k (o_procs (load rev_orders ex_cfg))) /\
  map fst (o_procs (load id_orders ex_cfg)) = [b "web"; b "a-0"; b "a-1"] /\
  option_map command (lookup (b "a-1") (o_procs (load rev_orders ex_cfg))) = Some (b "run 1 7 10.0.0.") /\
  option_map (fun r => option_map p_exec (readiness r)) (lookup (b "a-0") (o_procs (load rev_orders ex_cfg)))
    = Some (Some (Some (mkE (b "check 0") (b "/w/{{.PC_REPLICA_NUM}}")))) /\
  option_map (fun r => option_map p_exec (readiness r)) (lookup (b "a-1") (o_procs (load rev_orders ex_cfg)))
    = Some (Some (Some (mkE (b "check 1") (b "/w/{{.PC_REPLICA_NUM}}")))) /\
  option_map (fun r => option_map p_http (liveness r)) (lookup (b "web") (o_procs (load id_orders ex_cfg)))
    = Some (Some (Some (mkH (b "10.0.0.0") (b "/") (b "http") (b "8080") 8080))) /\
  multi (dflt (b "a") (snd (hd (b "a", mkProc [] [] 0 0 [] [] [] [] [] [] false None None 0 [] [] []) (procs ex_cfg)))) = true.
Proof.
  split; [exact good_id|]. split; [exact good_rev|].
  split; [repeat constructor; cbn; intuition discriminate|].
  split; [vm_compute; reflexivity|].
  split; [intros k; apply (proj1 (proj2 (load_deterministic id_orders rev_orders ex_cfg ex_cfg good_id good_rev
            ltac:(repeat constructor; cbn; intuition discriminate) ltac:(repeat constructor; cbn; intuition discriminate)
            (same_file_refl ex_cfg))))|].
  vm_compute. repeat split; reflexivity.
Qed.

(* ---------- monitor and model speak the same language ------------------------------------------------
   The check's monitor (Load/Check.v) was written independently of the model: it prints replica numbers
   with the standard library's decimal printer, has its own replica-name formula, its own precedence
   (replica number, process vars, project vars) and its own substitution.  For ALL inputs these coincide
   with the model's hand-rolled %d, CalculateReplicaName, env and render - so the model's "%d" is the
   decimal notation, and a templated field the monitor rejects is one on which the implementation left
   the model. *)
Theorem C16_monitor_decimal : forall n : nat, sdec n = dec n.
Proof. exact sdec_dec. Qed.
Print Assumptions C16_monitor_decimal.

Theorem C16_monitor_replica_name : forall (nm : str) (reps i : nat), spec_name nm reps i = rname nm reps i.
Proof. exact spec_name_rname. Qed.
Print Assumptions C16_monitor_replica_name.

Theorem C16_monitor_render : forall (G P : vars) (i : nat) (t : tpl) (s : str),
  s <> [] -> parse s = Some t -> spec_render G P i t = render (env G P i) s.
Proof. exact spec_render_is_model_render. Qed.
Print Assumptions C16_monitor_render.

Example C16_monitor_link_example :
  parse (b "x{{.PC_REPLICA_NUM}}-{{.A}}") = Some [SLit (b "x"); SVar pc_replica_num; SLit (b "-"); SVar (b "A")] /\
  spec_render [(b "A", b "g")] [(b "A", b "p")] 12 [SLit (b "x"); SVar pc_replica_num; SLit (b "-"); SVar (b "A")] = b "x12-p" /\
  spec_name (b "w") 101 7 = b "w-007".
Proof. vm_compute. repeat split; reflexivity. Qed.
