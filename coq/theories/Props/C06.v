(* C06 OS-level stop: signal, process group, SIGKILL escalation, shutdown command.
   This file contains only the property statements; every proof is `exact <lemma>`.
   Level: PARTIAL - the operating-system behaviour (signal delivery, process groups, setpgid at
   launch, pipe EOF) is an ASSUMPTION written down in OsTree/Model.v, not derived. *)
From Coq Require Import List ZArith NArith Bool.
From PC.StopPlan Require Import Model Proofs Check CheckProofs.
From PC.OsTree Require Import Model Proofs.
Import ListNotations.
Open Scope Z_scope.

(* "delivers the configured signal (default SIGTERM)": the signal that reaches the kernel is the
   configured one if it is a signal number (1..31), SIGTERM otherwise - for every integer. *)
Theorem C06_effective_signal : forall s : Z,
  eff_signal s = (if (1 <=? s) && (s <=? 31) then s else 15) /\ 1 <= eff_signal s <= 31.
Proof. exact (fun s => conj (eff_signal_spec s) (eff_signal_range s)). Qed.
Print Assumptions C06_effective_signal.

(* without a shutdown command the first action, at the stop request, is that signal, sent to the whole
   group unless parent_only; no other configured signal follows *)
Theorem C06_signal_first_to_group : forall (E D : Type) p (info : procinfo E D) ans,
  p_has_cmd p = false ->
  exists rest, plan p info ans = (0, AStop (target_of (p_parent_only p)) (p_signal p)) :: rest /\
               forallb (fun x => negb (is_stop (snd x))) rest = true.
Proof. exact @stop_is_first. Qed.
Print Assumptions C06_signal_first_to_group.

Theorem C06_only_valid_signals_reach_the_kernel : forall (E D : Type) (a : action E D) tgt s,
  os_wire a = Some (tgt, s) -> 1 <= s <= 31.
Proof. exact @os_signal_in_range. Qed.
Print Assumptions C06_only_valid_signals_reach_the_kernel.

(* every signal or SIGKILL of the procedure goes to the group, except with parent_only (and always to
   the group after a shutdown command) *)
Theorem C06_targets : forall (E D : Type) p (info : procinfo E D) ans t a tgt s,
  In (t, a) (plan p info ans) -> wire a = Some (tgt, s) ->
  tgt = (if p_has_cmd p then TGroup else target_of (p_parent_only p)).
Proof. exact @targets. Qed.
Print Assumptions C06_targets.

(* "killed with SIGKILL [only when still alive after the timeout, or after the command failed / timed
   out], and never earlier": soundness of the escalation, for all parameters and all answers *)
Theorem C06_sigkill_only_when_justified : forall (E D : Type) p (info : procinfo E D) ans t tgt,
  In (t, AEsc tgt) (plan p info ans) ->
  (match a_cmd ans with CmdOk ms | CmdFail ms => 0 <= ms | CmdHang => True end) ->
  (p_has_cmd p = false /\ p_timeout p <> 0 /\ t = deadline_ms (p_timeout p) /\
   ended_before (a_proc ans) t = false /\ tgt = target_of (p_parent_only p))
  \/
  (p_has_cmd p = true /\ tgt = TGroup /\
   cmd_error_at (a_cmd ans) (deadline_ms (cmd_timeout p)) = Some t).
Proof. exact @esc_only_when_justified. Qed.
Print Assumptions C06_sigkill_only_when_justified.

Theorem C06_sigkill_not_before_timeout : forall (E D : Type) p (info : procinfo E D) ans t tgt,
  p_has_cmd p = false -> In (t, AEsc tgt) (plan p info ans) ->
  p_timeout p * 1000 <= t /\ 0 <= t /\ ended_before (a_proc ans) t = false.
Proof. exact @esc_not_before_timeout. Qed.
Print Assumptions C06_sigkill_not_before_timeout.

(* "A process that is still alive when shutdown.timeout_seconds has elapsed is killed with SIGKILL" *)
Theorem C06_sigkill_when_timeout_passed : forall (E D : Type) p (info : procinfo E D) ans,
  p_has_cmd p = false -> p_timeout p <> 0 ->
  ended_before (a_proc ans) (deadline_ms (p_timeout p)) = false ->
  In (deadline_ms (p_timeout p), AEsc (target_of (p_parent_only p))) (plan p info ans).
Proof. exact @esc_when_timeout_passed. Qed.
Print Assumptions C06_sigkill_when_timeout_passed.

Theorem C06_no_sigkill_when_ended_in_time : forall (E D : Type) p (info : procinfo E D) ans t tgt,
  p_has_cmd p = false ->
  ended_before (a_proc ans) (deadline_ms (p_timeout p)) = true -> ~ In (t, AEsc tgt) (plan p info ans).
Proof. exact @no_esc_when_ended. Qed.
Print Assumptions C06_no_sigkill_when_ended_in_time.

Theorem C06_sigkill_at_most_once_and_last : forall (E D : Type) p (info : procinfo E D) ans,
  (length (filter is_esc (map snd (plan p info ans))) <= 1)%nat /\
  forall t tgt, In (t, AEsc tgt) (plan p info ans) -> exists pre, plan p info ans = pre ++ [(t, AEsc tgt)].
Proof. exact (fun E D p info ans => conj (esc_at_most_once p info ans) (esc_is_last p info ans)). Qed.
Print Assumptions C06_sigkill_at_most_once_and_last.

(* "a configured shutdown.command is run with the process's environment and working directory" - once,
   at the stop request, instead of the signal *)
Theorem C06_command_env_and_dir : forall (E D : Type) p (info : procinfo E D) ans t e d tmo,
  In (t, ARun e d tmo) (plan p info ans) ->
  p_has_cmd p = true /\ t = 0 /\ e = pi_env info /\ d = pi_dir info /\ tmo = cmd_timeout p /\ 0 < tmo.
Proof. exact @run_env_dir. Qed.
Print Assumptions C06_command_env_and_dir.

Theorem C06_command_is_run : forall (E D : Type) p (info : procinfo E D) ans,
  p_has_cmd p = true -> 0 < cmd_timeout p ->
  exists rest, plan p info ans = (0, ARun (pi_env info) (pi_dir info) (cmd_timeout p)) :: rest /\
               forallb (fun x => negb (is_run (snd x))) rest = true.
Proof. exact @run_when_cmd. Qed.
Print Assumptions C06_command_is_run.

(* "and SIGKILL follows only if it fails or times out" (iff) *)
Theorem C06_sigkill_after_command_iff_failed : forall (E D : Type) p (info : procinfo E D) ans,
  p_has_cmd p = true -> 0 < deadline_ms (cmd_timeout p) ->
  (forall t, cmd_error_at (a_cmd ans) (deadline_ms (cmd_timeout p)) = Some t ->
             In (t, AEsc TGroup) (plan p info ans)) /\
  (cmd_error_at (a_cmd ans) (deadline_ms (cmd_timeout p)) = None ->
   forall t tgt, ~ In (t, AEsc tgt) (plan p info ans)).
Proof.
  exact (fun E D p info ans Hc Hpos =>
    conj (fun t H => esc_when_cmd_fails p info ans t Hc H)
         (fun H t tgt => no_esc_when_cmd_ok p info ans t tgt Hc Hpos H)).
Qed.
Print Assumptions C06_sigkill_after_command_iff_failed.

(* ------------------------------------------------------------------ on the abstract process tree *)
(* "no descendant of any managed process is left alive" - PARTIAL: under the decidable side condition
   stop_reaches_all (group target; every member is in the group and either dies of the effective
   signal or, with a timeout, holds the output pipe; or the shutdown command fails/times out) *)
Theorem C06_no_survivor_partial : forall (E D : Type) p (info : procinfo E D) cb tr,
  stop_reaches_all p cb tr = true -> all_dead (run_stop p info cb tr) = true.
Proof. exact @stop_reaches_all_dead. Qed.
Print Assumptions C06_no_survivor_partial.

(* project shutdown, any number of managed processes *)
Theorem C06_project_shutdown_partial : forall (E D : Type)
  (ps : list (params * procinfo E D * cmd_behaviour * tree)),
  forallb (fun x => match x with (p, _, cb, tr) => stop_reaches_all p cb tr end) ps = true ->
  forallb all_dead (shutdown_all ps) = true.
Proof. exact @shutdown_all_dead. Qed.
Print Assumptions C06_project_shutdown_partial.

(* with a timeout the launched pid is dead afterwards whatever it ignores, parent_only or not ... *)
Theorem C06_launched_pid_dead_with_timeout : forall (E D : Type) p (info : procinfo E D) cb tr m,
  p_has_cmd p = false -> p_timeout p <> 0 -> wf tr = true ->
  In m (run_stop p info cb tr) -> m_leader m = true -> m_alive m = false.
Proof. exact @leader_dead_with_timeout. Qed.
Print Assumptions C06_launched_pid_dead_with_timeout.

(* ... and so is every group member that holds the captured output *)
Theorem C06_pipe_holders_dead_with_timeout : forall (E D : Type) p (info : procinfo E D) cb tr m,
  p_has_cmd p = false -> p_timeout p <> 0 -> p_parent_only p = false ->
  In m (run_stop p info cb tr) -> m_in_group m = true -> m_holds_pipe m = true -> m_alive m = false.
Proof. exact @pipe_holders_dead_with_timeout. Qed.
Print Assumptions C06_pipe_holders_dead_with_timeout.

(* The unrestricted sentence is FALSE of the code (finding F24): *)
Theorem C06_no_survivor_refuted_no_timeout :
  exists p cb tr, p_parent_only p = false /\ forallb m_in_group tr = true /\ p_timeout p = 0 /\
    survivors (run_stop p uinfo cb tr) <> [].
Proof.
  exists (mkParams 15 0 false false), no_cmd, [leader_plain; child_ign_term true].
  rewrite survivor_without_timeout. repeat split; discriminate.
Qed.
Print Assumptions C06_no_survivor_refuted_no_timeout.

Theorem C06_no_survivor_refuted_despite_timeout :
  exists p cb tr, p_parent_only p = false /\ forallb m_in_group tr = true /\ 0 < p_timeout p /\
    survivors (run_stop p uinfo cb tr) <> [].
Proof.
  exists (mkParams 15 5 false false), no_cmd, [leader_plain; child_ign_term false].
  rewrite survivor_despite_timeout. repeat split; discriminate.
Qed.
Print Assumptions C06_no_survivor_refuted_despite_timeout.

Theorem C06_no_survivor_refuted_parent_only :
  exists p cb tr, p_parent_only p = true /\ 0 < p_timeout p /\
    (forall m, In m tr -> m_ignores m = [] \/ m_ignores m = [2; 3]) /\
    survivors (run_stop p uinfo cb tr) <> [].
Proof.
  exists (mkParams 15 5 false true), no_cmd, [leader_plain; child_plain].
  rewrite parent_only_survivor. repeat split; try discriminate.
  intros m [<-|[<-|[]]]; auto.
Qed.
Print Assumptions C06_no_survivor_refuted_parent_only.

(* parent_only in general: members other than the launched pid are never touched *)
Theorem C06_parent_only_spares_descendants : forall (E D : Type) p (info : procinfo E D) cb tr,
  p_has_cmd p = false -> p_parent_only p = true ->
  filter (fun m => negb (m_leader m)) (run_stop p info cb tr) = filter (fun m => negb (m_leader m)) tr.
Proof. exact @parent_only_spares_children. Qed.
Print Assumptions C06_parent_only_spares_descendants.

(* model and monitor are consistent: the observation the plan would produce on the fake commander is
   accepted by the property monitor holds_C06_f, for all parameters, answers and tolerances *)
Theorem C06_monitor_accepts_model : forall p i ans slack,
  0 <= slack -> answers_wf ans -> cmd_clear p ans slack ->
  holds_C06_f (obs_of_model p i ans slack) = true.
Proof. exact model_satisfies_monitor. Qed.
Print Assumptions C06_monitor_accepts_model.

(* non-vacuity: a three-member tree with a TERM-ignoring pipe holder meets the side condition of
   C06_no_survivor_partial, the plan contains the escalation at exactly the timeout, nothing survives *)
Example C06_example :
  let p := mkParams 0 2 false false in
  let tr := [leader_plain; child_plain; mkMember 3 false true [15; 2; 3] true true] in
  stop_reaches_all p no_cmd tr = true /\
  plan p uinfo (answers_of p no_cmd tr) = [(0, AStop TGroup 0); (2000, AEsc TGroup)] /\
  survivors (run_stop p uinfo no_cmd tr) = [] /\
  survivors (kill TGroup (eff_signal 0) tr) = [3%N].
Proof. vm_compute. repeat split; reflexivity. Qed.
