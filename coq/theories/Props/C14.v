(* C14 Live project update converges to the new config with minimal disturbance.
   This file contains only the property statements; every proof is `exact <lemma>`.
   Model: coq/theories/Update/Model.v (UpdateProject / UpdateProcess / removeProcess / addProcessAndRun /
   ProcessConfig.Compare of process-compose AFTER the repairs fixes/F9-*.diff and fixes/F27-*.diff).
   [s] ranges over ALL supervisor states satisfying the invariant [inv] (every state reachable from a
   start by any sequence of updates does: C14_reachable_inv), [new] over all projects (lists with
   distinct names), configurations over all field valuations. *)
From Coq Require Import List NArith Bool.
From PC.Update Require Import Model Proofs Check MonLink.
Import ListNotations.
Local Open Scope N_scope.

(* "After a project update with configuration P' succeeds, the set of configured processes is exactly
   that of P'" *)
Theorem C14_names_exact : forall (s : st) (new : list (N * pconf)),
  NoDup (keys (procs s)) -> NoDup (keys new) ->
  forall n, In n (keys (procs (fst (update s new)))) <-> In n (keys new).
Proof. exact names_after. Qed.
Print Assumptions C14_names_exact.

(* ... and each stored configuration is the new one as far as Compare can tell; literally the new one
   for every process named in the status map *)
Theorem C14_configured_is_new : forall (s : st) (new : list (N * pconf)),
  NoDup (keys (procs s)) -> NoDup (keys new) ->
  forall n,
  match lookup n new with
  | None => lookup n (procs (fst (update s new))) = None
  | Some c' => exists c, lookup n (procs (fst (update s new))) = Some c /\ compare c c' = true /\
                         (lookup n (snd (update s new)) <> None -> c = c')
  end.
Proof. exact configured_after. Qed.
Print Assumptions C14_configured_is_new.

(* "the returned status map names exactly the added, removed and updated processes" (unchanged ones
   are absent) *)
Theorem C14_status_exact : forall (s : st) (new : list (N * pconf)) (n : N),
  NoDup (keys (procs s)) -> NoDup (keys new) ->
  lookup n (snd (update s new)) =
  match lookup n (procs s), lookup n new with
  | None, None => None
  | Some _, None => Some URemoved
  | None, Some _ => Some UAdded
  | Some c, Some c' => if compare c c' then None else Some UUpdated
  end.
Proof. exact update_status. Qed.
Print Assumptions C14_status_exact.

(* "processes whose ... configuration ... is unchanged keep their running instance": same stored
   configuration, same instance id, no stop / end / launch event about them, absent from the status.
   (_partial: "unchanged" is "Compare returns true"; see C14_keep_if_launch_config_unchanged_refuted) *)
Theorem C14_unchanged_keeps_instance_partial : forall (s : st) (new : list (N * pconf)),
  NoDup (keys (procs s)) -> NoDup (keys new) ->
  forall n c c',
  lookup n (procs s) = Some c -> lookup n new = Some c' -> compare c c' = true ->
  lookup n (procs (fst (update s new))) = Some c /\
  lookup n (live (fst (update s new))) = lookup n (live s) /\
  evs_of n (evs (fst (update s new))) = evs_of n (evs s) /\
  lookup n (snd (update s new)) = None.
Proof. exact unchanged_kept. Qed.
Print Assumptions C14_unchanged_keeps_instance_partial.

(* the literal clause (launch-relevant fields agree => instance kept) does not hold of the code:
   a cosmetic change (description) stops the running instance *)
Theorem C14_keep_if_launch_config_unchanged_refuted :
  exists s new n c c' i, reachable s /\ NoDup (keys new) /\
    lookup n (procs s) = Some c /\ lookup n new = Some c' /\
    (forall f, In f launch_relevant -> get f c = get f c') /\
    lookup n (live s) = Some i /\ In (EStop n i) (evs (fst (update s new))).
Proof. exact keep_if_launch_config_unchanged_refuted. Qed.
Print Assumptions C14_keep_if_launch_config_unchanged_refuted.

(* "changed ones have their old instance terminated and a new one launched with the new configuration":
   the events about the process are: stop of the old instance, its end, then the launch of a fresh
   instance j carrying exactly the new configuration (no launch for a disabled / foreground process) *)
Theorem C14_changed_replaced : forall (s : st) (new : list (N * pconf)),
  NoDup (keys (procs s)) -> NoDup (keys new) ->
  forall n c c',
  lookup n (procs s) = Some c -> lookup n new = Some c' -> compare c c' = false ->
  exists j, next s <= j /\ (deferred c' = false -> j < next (fst (update s new))) /\
    lookup n (procs (fst (update s new))) = Some c' /\
    lookup n (live (fst (update s new))) = launch_live c' j None /\
    evs_of n (evs (fst (update s new))) =
      evs_of n (evs s) ++ stop_evs n (lookup n (live s)) ++ launch_evs n c' j /\
    lookup n (snd (update s new)) = Some UUpdated.
Proof. exact changed_replaced. Qed.
Print Assumptions C14_changed_replaced.

Theorem C14_replacement_is_a_younger_instance : forall s new n c c' i,
  inv s -> NoDup (keys new) ->
  lookup n (procs s) = Some c -> lookup n new = Some c' -> compare c c' = false ->
  lookup n (live s) = Some i -> deferred c' = false ->
  exists j, i < j /\ lookup n (live (fst (update s new))) = Some j /\
    evs_of n (evs (fst (update s new))) =
      evs_of n (evs s) ++ [EStop n i; EEnd n i; ELaunch n j c'].
Proof. exact replaced_is_fresh. Qed.
Print Assumptions C14_replacement_is_a_younger_instance.

(* "removed ones are terminated and no longer listed" *)
Theorem C14_removed_terminated : forall (s : st) (new : list (N * pconf)),
  NoDup (keys (procs s)) -> NoDup (keys new) ->
  forall n c, lookup n (procs s) = Some c -> lookup n new = None ->
  lookup n (procs (fst (update s new))) = None /\ lookup n (live (fst (update s new))) = None /\
  evs_of n (evs (fst (update s new))) = evs_of n (evs s) ++ stop_evs n (lookup n (live s)) /\
  lookup n (snd (update s new)) = Some URemoved.
Proof. exact removed_terminated. Qed.
Print Assumptions C14_removed_terminated.

(* "new ones are launched" *)
Theorem C14_added_launched : forall (s : st) (new : list (N * pconf)),
  NoDup (keys (procs s)) -> NoDup (keys new) ->
  forall n c', lookup n (procs s) = None -> lookup n new = Some c' ->
  exists j, next s <= j /\ (deferred c' = false -> j < next (fst (update s new))) /\
    lookup n (procs (fst (update s new))) = Some c' /\
    lookup n (live (fst (update s new))) = launch_live c' j (lookup n (live s)) /\
    evs_of n (evs (fst (update s new))) = evs_of n (evs s) ++ launch_evs n c' j /\
    lookup n (snd (update s new)) = Some UAdded.
Proof. exact added_launched. Qed.
Print Assumptions C14_added_launched.

(* "and all sequences of successive updates": the invariant holds after Run() and is kept by every
   update, so the theorems above apply at every step of every sequence *)
Theorem C14_reachable_inv : forall s, reachable s -> inv s.
Proof. exact reachable_inv. Qed.
Print Assumptions C14_reachable_inv.

Theorem C14_sequence_inv : forall ps s, inv s -> inv (updates s ps).
Proof. exact updates_inv. Qed.
Print Assumptions C14_sequence_inv.

Theorem C14_sequence_names : forall s ps p, inv s -> NoDup (keys p) ->
  forall n, In n (keys (procs (updates s (ps ++ [p])))) <-> In n (keys p).
Proof. exact updates_names. Qed.
Print Assumptions C14_sequence_names.

(* a process that compares equal in every project of a sequence is never touched *)
Theorem C14_sequence_stable : forall ps s n c, inv s -> wf_all ps -> lookup n (procs s) = Some c ->
  Forall (fun p => exists c', lookup n p = Some c' /\ compare c c' = true) ps ->
  view n (updates s ps) = view n s.
Proof. exact updates_stable. Qed.
Print Assumptions C14_sequence_stable.

(* every live instance belongs to a configured process *)
Theorem C14_live_is_configured : forall s n i, inv s -> lookup n (live s) = Some i -> In n (keys (procs s)).
Proof. exact live_configured. Qed.
Print Assumptions C14_live_is_configured.

(* field-by-field sensitivity of the change detection: Compare = true forces agreement on every
   launch-relevant field (executable, arguments, environment, working directory, probes, policies,
   dependencies) - for the repaired Compare *)
Theorem C14_compare_sensitive : forall a b,
  compare a b = true -> forall f, In f launch_relevant -> get f a = get f b.
Proof. exact compare_sensitive. Qed.
Print Assumptions C14_compare_sensitive.

(* ... REFUTED for the field list of the unchanged code (finding F9): Executable is not compared *)
Theorem C14_compare_sensitive_refuted_unfixed :
  exists a b, compare_with compared_orig a b = true /\ In FExecutable launch_relevant /\
              get FExecutable a <> get FExecutable b.
Proof. exact compare_orig_insensitive. Qed.
Print Assumptions C14_compare_sensitive_refuted_unfixed.

(* ... and Executable is the only launch-relevant field it misses *)
Theorem C14_compare_unfixed_partial : forall a b,
  compare_with compared_orig a b = true ->
  forall f, In f launch_relevant -> f <> FExecutable -> get f a = get f b.
Proof. exact compare_orig_sensitive_but_executable. Qed.
Print Assumptions C14_compare_unfixed_partial.

(* model => monitor for Compare cases: the check's Compare monitor (cmp_holds: "equal" implies agreement on
   every launch-relevant field; agreement on every real field implies "equal") accepts the model's own answer
   for EVERY pair of configurations, and rejects the unrepaired field list on some pair. *)
Theorem C14_compare_monitor_accepts_model : forall a b : pconf,
  cmp_holds (mkC a b (compare a b)) = true /\ cmp_model_ok (mkC a b (compare a b)) = true.
Proof. exact (fun a b => conj (cmp_monitor_on_model a b) (cmp_model_on_model a b)). Qed.
Print Assumptions C14_compare_monitor_accepts_model.

Theorem C14_compare_monitor_rejects_unfixed :
  exists a b : pconf, cmp_holds (mkC a b (compare_with compared_orig a b)) = false.
Proof. exact cmp_monitor_rejects_unfixed. Qed.
Print Assumptions C14_compare_monitor_rejects_unfixed.

(* non-vacuity: a running project of three processes updated so that one is kept, one replaced, one
   removed and one added; the hypotheses of all theorems are met and the outcome is the expected one *)
Example C14_example :
  let ca := [(FExecutable, 1); (FArgs, 1)] in
  let cb := [(FExecutable, 1); (FArgs, 2)] in
  let cb' := [(FExecutable, 2); (FArgs, 2)] in
  let s := boot [(1, ca); (2, cb); (3, ca)] in
  let new := [(1, ca); (2, cb'); (4, cb)] in
  NoDup (keys (procs s)) /\ NoDup (keys new) /\
  compare ca ca = true /\ compare cb cb' = false /\
  live s = [(1, 1); (2, 2); (3, 3)] /\
  live (fst (update s new)) = [(1, 1); (4, 4); (2, 5)] /\
  skipn 3 (evs (fst (update s new))) =
    [EStop 3 3; EEnd 3 3; ELaunch 4 4 cb; EStop 2 2; EEnd 2 2; ELaunch 2 5 cb'] /\
  snd (update s new) = [(3, URemoved); (4, UAdded); (2, UUpdated)].
Proof.
  cbv zeta. split; [repeat constructor; cbn; intuition discriminate|].
  split; [repeat constructor; cbn; intuition discriminate|].
  vm_compute. repeat split; reflexivity.
Qed.
