(* Correspondence checker and property monitor for C11, evaluated by vm_compute on what the Go
   harness observed on the implementation (GetProcessLog after the process ended, the parsed log file
   after Run() returned).  No proofs here; the decision procedure for "is an interleaving" is proved
   correct in CheckProofs.v. *)
From Coq Require Import List NArith Bool Arith.
From PC.Base Require Import Util.
From PC.LogBuf Require Import Model.
From PC.Lines Require Import Model.
Import ListNotations.

(* run-length coded byte strings keep 100 kB lines small in the generated file *)
Definition unrle (r : list (N * N)) : list N :=
  fold_right (fun p acc => N.iter (snd p) (cons (fst p)) acc) [] r.

Record ocase := mkCase {
  c_size     : nat;                               (* configured log_length *)
  c_proc     : N;                                 (* this process *)
  c_procs    : list N;                            (* every process that writes to the same file *)
  c_atts     : list attempt;                      (* per launch: the chunks written to stdout / stderr *)
  c_launches : nat;                               (* launches observed *)
  c_mem      : list line;                         (* GetProcessLog(name, huge, 0) after the end *)
  c_file     : option (list (N * bool * line))    (* parsed log file: (process, is error level, message) *)
}.

(* lazy, tail-recursive equalities (lines can be 100 kB long) *)
Fixpoint line_eqb (a b : line) : bool :=
  match a, b with
  | [], [] => true
  | x :: a', y :: b' => if N.eqb x y then line_eqb a' b' else false
  | _, _ => false
  end.
Fixpoint lines_eqb (a b : list line) : bool :=
  match a, b with
  | [], [] => true
  | x :: a', y :: b' => if line_eqb x y then lines_eqb a' b' else false
  | _, _ => false
  end.

(* ---- stack-safe (tail-recursive) evaluation of the specification: a text of 100 kB must not need
        100 000 nested calls.  Both are proved equal to the plain definitions in CheckProofs.v. ---- *)
Definition concat_tr (chunks : list (list N)) : list N :=
  rev_append (fold_left (fun acc ch => rev_append ch acc) chunks []) [].

(* the fields between newlines, found by scanning the text from its END (like strings.Split);
   the last field is not a line when it is empty *)
Fixpoint fields_back (rs : list N) (cur : line) (acc : list line) : list line :=
  match rs with
  | [] => cur :: acc
  | c :: r => if N.eqb c nl then fields_back r [] (cur :: acc) else fields_back r (c :: cur) acc
  end.
Definition split_lines_tr (s : list N) : list line :=
  match rev_append s [] with
  | [] => []
  | c :: r => if N.eqb c nl then fields_back r [] [] else fields_back (c :: r) [] []
  end.

Fixpoint expected_out_tr (texts : list (list N)) : list line :=
  match texts with
  | [] => []
  | [t] => split_lines_tr t
  | t :: rest => split_lines_tr t ++ [nl] :: expected_out_tr rest
  end.
Definition expected_err_tr (texts : list (list N)) : list line := concat (map split_lines_tr texts).

(* ---- is m a prefix of an interleaving of a and b?  Frontier of residual pairs, one step per element of m. *)
Definition resid : Type := list line * list line.
Definition resid_eqb (p q : resid) : bool :=
  if lines_eqb (fst p) (fst q) then lines_eqb (snd p) (snd q) else false.

Definition il_moves (x : line) (p : resid) : list resid :=
  (match snd p with y :: rb => if line_eqb y x then [(fst p, rb)] else [] | [] => [] end) ++
  (match fst p with y :: ra => if line_eqb y x then [(ra, snd p)] else [] | [] => [] end).

Fixpoint dedup_adj (F : list resid) : list resid :=
  match F with
  | p :: ((q :: _) as r) => if resid_eqb p q then dedup_adj r else p :: dedup_adj r
  | _ => F
  end.

Definition il_step (F : list resid) (x : line) : list resid := dedup_adj (flat_map (il_moves x) F).
Definition il_run (m : list line) (F : list resid) : list resid := fold_left il_step m F.

Definition is_nil {A} (l : list A) : bool := match l with [] => true | _ => false end.

(* m is an interleaving of a suffix of a with a suffix of b *)
Definition suffix_interleaving (a b m : list line) : bool :=
  negb (is_nil (il_run (rev m) [(rev a, rev b)])).

(* ---- what must be observed, given the lines each stream has to contribute ---- *)
Definition mem_ok (size : nat) (exp_out exp_err mem : list line) : bool :=
  let total := length exp_out + length exp_err in
  let n := length mem in
  Nat.leb (Nat.min total size) n && Nat.leb n (size + slack) && Nat.leb n total &&
  suffix_interleaving exp_out exp_err mem.

Definition file_ok (c : ocase) (exp_out exp_err : list line) : bool :=
  match c_file c with
  | None => true
  | Some f =>
      let mine := filter (fun r => N.eqb (fst (fst r)) (c_proc c)) f in
      forallb (fun r => existsb (N.eqb (fst (fst r))) (c_procs c)) f &&
      lines_eqb (map snd (filter (fun r => negb (snd (fst r))) mine)) exp_out &&
      lines_eqb (map snd (filter (fun r => snd (fst r)) mine)) exp_err
  end.

Definition obs_ok (c : ocase) (exp_out exp_err : list line) : bool :=
  Nat.eqb (c_launches c) (length (c_atts c)) &&
  mem_ok (c_size c) exp_out exp_err (c_mem c) &&
  file_ok c exp_out exp_err.

(* model agreement: the lines come from the model of the (repaired) reader run on the very chunks written *)
Definition model_ok (c : ocase) : bool :=
  let es := run_entries true [] (c_atts c) in
  obs_ok c (proj SOut es) (proj SErr es).

(* property monitor: the lines come from the specification function applied to the texts *)
Definition holds_C11 (c : ocase) : bool :=
  obs_ok c (expected_out_tr (map (fun a => concat_tr (a_out a)) (c_atts c)))
           (expected_err_tr (map (fun a => concat_tr (a_err a)) (c_atts c))).

(* the same two for the UNCHANGED reader (used to tell finding F5 from other failures) *)
Definition model_orig_ok (c : ocase) : bool :=
  let es := run_entries false [] (c_atts c) in
  obs_ok c (proj SOut es) (proj SErr es).

Definition bad_model (cs : list ocase) : list nat := failing model_ok cs.
Definition bad_monitor (cs : list ocase) : list nat := failing holds_C11 cs.
Definition bad_model_orig (cs : list ocase) : list nat := failing model_orig_ok cs.
