(* Proofs about the C11 checker: the stack-safe evaluators equal the plain definitions, the interleaving
   decision procedure is exact, and the monitor accepts every observation the model can produce. *)
From Coq Require Import List NArith Bool Arith Lia.
From PC.LogBuf Require Import Model Proofs.
From PC.Lines Require Import Model Proofs Check.
Import ListNotations.

(* ---------- equalities -------------------------------------------------------------------------- *)
Lemma line_eqb_spec a : forall b, line_eqb a b = true <-> a = b.
Proof.
  induction a as [|x a IH]; intros [|y b]; cbn; try (split; congruence).
  destruct (N.eqb_spec x y) as [->|Hn]; [rewrite IH|]; split; congruence.
Qed.
Lemma lines_eqb_spec a : forall b, lines_eqb a b = true <-> a = b.
Proof.
  induction a as [|x a IH]; intros [|y b]; cbn; try (split; congruence).
  destruct (line_eqb x y) eqn:E.
  - apply line_eqb_spec in E. subst. rewrite IH. split; congruence.
  - split; [discriminate|]. intros H. inversion H; subst.
    assert (line_eqb y y = true) by now apply line_eqb_spec. congruence.
Qed.
Lemma lines_eqb_refl a : lines_eqb a a = true.
Proof. now apply lines_eqb_spec. Qed.
Lemma resid_eqb_eq p q : resid_eqb p q = true -> p = q.
Proof.
  unfold resid_eqb. destruct p as [a b], q as [a' b']. cbn.
  destruct (lines_eqb a a') eqn:E; [|discriminate]. intros H.
  apply lines_eqb_spec in E, H. now subst.
Qed.

(* ---------- stack-safe evaluators ---------------------------------------------------------------- *)
Lemma concat_tr_eq chunks : concat_tr chunks = concat chunks.
Proof.
  unfold concat_tr.
  assert (H : forall acc, fold_left (fun acc ch => rev_append ch acc) chunks acc = rev (concat chunks) ++ acc).
  { induction chunks as [|ch r IH]; intros acc; cbn [fold_left concat]; [reflexivity|].
    rewrite IH, rev_append_rev, rev_app_distr. now rewrite <- app_assoc. }
  rewrite H, app_nil_r, rev_append_rev, app_nil_r. apply rev_involutive.
Qed.

Lemma split_lines_nl_nonempty x : split_lines (x ++ [nl]) <> [].
Proof.
  destruct x as [|c x]; cbn [app split_lines].
  - rewrite N.eqb_refl. discriminate.
  - destruct (N.eqb c nl); [discriminate|]. destruct (split_lines (x ++ [nl])); discriminate.
Qed.

Lemma split_lines_after_nl x y :
  split_lines ((x ++ [nl]) ++ y) = split_lines (x ++ [nl]) ++ split_lines y.
Proof.
  induction x as [|c x IH]; cbn [app split_lines].
  - now rewrite N.eqb_refl.
  - destruct (N.eqb c nl).
    + cbn [app]. f_equal. exact IH.
    + rewrite IH. destruct (split_lines (x ++ [nl])) eqn:E; [|reflexivity].
      exfalso. now apply split_lines_nl_nonempty in E.
Qed.

Lemma split_lines_add_nl s c : c <> nl -> split_lines ((s ++ [c]) ++ [nl]) = split_lines (s ++ [c]).
Proof.
  intros Hc. induction s as [|d s IH]; cbn [app split_lines].
  - destruct (N.eqb_spec c nl); [contradiction|]. now rewrite N.eqb_refl.
  - destruct (N.eqb d nl); now rewrite IH.
Qed.

Lemma fields_back_spec rs : forall cur acc, no_nl cur ->
  fields_back rs cur acc = split_lines (rev rs ++ cur ++ [nl]) ++ acc.
Proof.
  induction rs as [|a rs IH]; intros cur acc Hc; cbn [fields_back rev app].
  - now rewrite split_lines_app_nl.
  - destruct (N.eqb_spec a nl) as [->|Ha].
    + rewrite IH by (intros []). cbn [app].
      rewrite split_lines_after_nl, (split_lines_app_nl cur []) by assumption.
      now rewrite <- app_assoc.
    + rewrite IH.
      * now rewrite <- app_assoc.
      * intros [E|Hin]; [now apply Ha|now apply Hc].
Qed.

Theorem split_lines_tr_eq s : split_lines_tr s = split_lines s.
Proof.
  unfold split_lines_tr. rewrite <- rev_alt. destruct (rev s) as [|c r] eqn:E.
  - apply (f_equal (@rev N)) in E. rewrite rev_involutive in E. now subst.
  - apply (f_equal (@rev N)) in E. rewrite rev_involutive in E. cbn [rev] in E. subst s.
    destruct (N.eqb_spec c nl) as [->|Hc].
    + rewrite fields_back_spec by (intros []). cbn [app]. now rewrite app_nil_r.
    + rewrite fields_back_spec by (intros []). cbn [rev app]. rewrite app_nil_r.
      now apply split_lines_add_nl.
Qed.

Lemma expected_out_tr_eq texts : expected_out_tr texts = expected_out texts.
Proof.
  induction texts as [|t r IH]; [reflexivity|]. destruct r as [|t2 r].
  - cbn. apply split_lines_tr_eq.
  - change (expected_out_tr (t :: t2 :: r)) with (split_lines_tr t ++ [nl] :: expected_out_tr (t2 :: r)).
    change (expected_out (t :: t2 :: r)) with (split_lines t ++ [nl] :: expected_out (t2 :: r)).
    now rewrite IH, split_lines_tr_eq.
Qed.
Lemma expected_err_tr_eq texts : expected_err_tr texts = expected_err texts.
Proof.
  unfold expected_err_tr, expected_err. f_equal. apply map_ext. intros. apply split_lines_tr_eq.
Qed.

Lemma holds_C11_unfold c :
  holds_C11 c = obs_ok c (expected_out (out_texts (c_atts c))) (expected_err (err_texts (c_atts c))).
Proof.
  unfold holds_C11, out_texts, err_texts. rewrite expected_out_tr_eq, expected_err_tr_eq.
  f_equal; f_equal; apply map_ext; intros; apply concat_tr_eq.
Qed.

(* ---------- the interleaving decision procedure -------------------------------------------------- *)
Lemma interleave_nil_inv {A} (a b : list A) : Interleave a b [] -> a = [] /\ b = [].
Proof. intros H. inversion H. auto. Qed.

Lemma interleave_app2 {A} (a b m a' b' m' : list A) :
  Interleave a b m -> Interleave a' b' m' -> Interleave (a ++ a') (b ++ b') (m ++ m').
Proof. induction 1; intros H'; cbn; [assumption|constructor; auto..]. Qed.

Lemma interleave_rev {A} (a b m : list A) : Interleave a b m -> Interleave (rev a) (rev b) (rev m).
Proof.
  induction 1 as [|x a b m _ IH|y a b m _ IH]; cbn [rev]; [constructor| |].
  - rewrite <- (app_nil_r (rev b)). apply interleave_app2; [assumption|repeat constructor].
  - rewrite <- (app_nil_r (rev a)). apply interleave_app2; [assumption|repeat constructor].
Qed.

Lemma interleave_split {A} (pre : list A) : forall a b m, Interleave a b (pre ++ m) ->
  exists a1 a2 b1 b2, a = a1 ++ a2 /\ b = b1 ++ b2 /\ Interleave a2 b2 m.
Proof.
  induction pre as [|x pre IH]; intros a b m H; cbn [app] in H.
  - now exists [], a, [], b.
  - inversion H; subst.
    + destruct (IH _ _ _ H3) as (a1 & a2 & b1 & b2 & -> & -> & Hi).
      now exists (x :: a1), a2, b1, b2.
    + destruct (IH _ _ _ H3) as (a1 & a2 & b1 & b2 & -> & -> & Hi).
      now exists a1, a2, (x :: b1), b2.
Qed.

Definition Reach (p : resid) (m : list line) (q : resid) : Prop :=
  exists a1 b1, fst p = a1 ++ fst q /\ snd p = b1 ++ snd q /\ Interleave a1 b1 m.

Lemma in_dedup_adj q F : In q (dedup_adj F) <-> In q F.
Proof.
  induction F as [|p F IH]; [reflexivity|]. destruct F as [|p2 F]; [reflexivity|].
  cbn [dedup_adj]. destruct (resid_eqb p p2) eqn:E.
  - apply resid_eqb_eq in E. subst p2. rewrite IH. cbn. tauto.
  - cbn [In]. rewrite IH. cbn. tauto.
Qed.

Lemma il_moves_spec x p q : In q (il_moves x p) <->
  (exists rb, snd p = x :: rb /\ q = (fst p, rb)) \/ (exists ra, fst p = x :: ra /\ q = (ra, snd p)).
Proof.
  unfold il_moves. rewrite in_app_iff. destruct p as [ra rb]. cbn [fst snd].
  assert (Hl : forall (l : list line) (mk : list line -> resid),
    In q (match l with y :: r => if line_eqb y x then [mk r] else [] | [] => [] end) <->
    exists r, l = x :: r /\ q = mk r).
  { intros l mk. destruct l as [|y r].
    - split; [intros []|intros (r & E & _); discriminate].
    - destruct (line_eqb y x) eqn:E.
      + apply line_eqb_spec in E. subst y. split.
        * intros [<-|[]]. now exists r.
        * intros (r' & E' & ->). inversion E'; subst. now left.
      + split; [intros []|]. intros (r' & E' & _). inversion E'; subst.
        assert (line_eqb x x = true) by now apply line_eqb_spec. congruence. }
  rewrite (Hl rb (fun r => (ra, r))), (Hl ra (fun r => (r, rb))). reflexivity.
Qed.

Lemma reach_step x p m q :
  (exists p', In p' (il_moves x p) /\ Reach p' m q) <-> Reach p (x :: m) q.
Proof.
  split.
  - intros (p' & Hin & a1 & b1 & Ha & Hb & Hi). apply il_moves_spec in Hin.
    destruct Hin as [(rb & E & ->)|(ra & E & ->)]; cbn [fst snd] in *.
    + exists a1, (x :: b1). rewrite E, Hb. repeat split; [assumption|now constructor].
    + exists (x :: a1), b1. rewrite E, Ha. repeat split; [assumption|now constructor].
  - intros (a1 & b1 & Ha & Hb & Hi). inversion Hi; subst.
    + exists (a ++ fst q, snd p). split.
      * apply il_moves_spec. right. exists (a ++ fst q). now rewrite Ha.
      * now exists a, b1.
    + exists (fst p, b ++ snd q). split.
      * apply il_moves_spec. left. exists (b ++ snd q). now rewrite Hb.
      * now exists a1, b.
Qed.

Lemma il_run_spec m : forall F q, In q (il_run m F) <-> exists p, In p F /\ Reach p m q.
Proof.
  induction m as [|x m IH]; intros F q; cbn [il_run fold_left].
  - split.
    + intros H. exists q. split; [assumption|]. exists [], []. repeat split. constructor.
    + intros (p & Hin & a1 & b1 & Ha & Hb & Hi). apply interleave_nil_inv in Hi. destruct Hi; subst.
      cbn in Ha, Hb. destruct p, q; cbn in *; now subst.
  - fold (il_run m (il_step F x)). rewrite IH. unfold il_step. split.
    + intros (p' & Hin & Hr). apply in_dedup_adj, in_flat_map in Hin. destruct Hin as (p & Hp & Hm).
      exists p. split; [assumption|]. apply reach_step. now exists p'.
    + intros (p & Hp & Hr). apply reach_step in Hr. destruct Hr as (p' & Hm & Hr).
      exists p'. split; [|assumption]. apply in_dedup_adj, in_flat_map. now exists p.
Qed.

Theorem suffix_interleaving_spec a b m :
  suffix_interleaving a b m = true <->
  exists a1 a2 b1 b2, a = a1 ++ a2 /\ b = b1 ++ b2 /\ Interleave a2 b2 m.
Proof.
  unfold suffix_interleaving. split.
  - intros H. destruct (il_run (rev m) [(rev a, rev b)]) as [|q F] eqn:E; [discriminate|].
    assert (Hin : In q (il_run (rev m) [(rev a, rev b)])) by (rewrite E; now left).
    apply il_run_spec in Hin. destruct Hin as (p & [<-|[]] & a1 & b1 & Ha & Hb & Hi). cbn [fst snd] in *.
    exists (rev (fst q)), (rev a1), (rev (snd q)), (rev b1).
    rewrite <- !rev_app_distr, <- Ha, <- Hb, !rev_involutive. repeat split.
    apply interleave_rev in Hi. now rewrite rev_involutive in Hi.
  - intros (a1 & a2 & b1 & b2 & -> & -> & Hi).
    assert (Hin : In (rev a1, rev b1) (il_run (rev m) [(rev (a1 ++ a2), rev (b1 ++ b2))])).
    { apply il_run_spec. exists (rev (a1 ++ a2), rev (b1 ++ b2)). split; [now left|].
      exists (rev a2), (rev b2). cbn [fst snd]. rewrite !rev_app_distr. repeat split.
      now apply interleave_rev. }
    destruct (il_run (rev m) [(rev (a1 ++ a2), rev (b1 ++ b2))]); [destruct Hin|reflexivity].
Qed.

(* ---------- the monitor accepts what the model produces ----------------------------------------- *)
Definition observe (size : nat) (pid : N) (atts : list attempt) (scheds_mem scheds_file : list (list bool)) : ocase :=
  mkCase size pid [pid] atts (length atts)
    (mem_log size (map snd (run_entries true scheds_mem atts)))
    (Some (map (fun e => (pid, src_eqb (fst e) SErr, snd e)) (run_entries true scheds_file atts))).

Lemma proj_partition (es : list entry) : Interleave (proj SOut es) (proj SErr es) (map snd es).
Proof.
  unfold proj. induction es as [|[[] l] es IH]; cbn; now constructor.
Qed.

Lemma proj_lengths (es : list entry) : length (proj SOut es) + length (proj SErr es) = length es.
Proof.
  unfold proj. rewrite !map_length. induction es as [|[[] l] es IH]; cbn [filter fst src_eqb length].
  all: lia.
Qed.

Lemma file_proj pid (es : list entry) :
  let f := map (fun e : entry => (pid, src_eqb (fst e) SErr, snd e)) es in
  let mine := filter (fun r : N * bool * line => N.eqb (fst (fst r)) pid) f in
  map snd (filter (fun r : N * bool * line => negb (snd (fst r))) mine) = proj SOut es /\
  map snd (filter (fun r : N * bool * line => snd (fst r)) mine) = proj SErr es /\
  forallb (fun r : N * bool * line => existsb (N.eqb (fst (fst r))) [pid]) f = true.
Proof.
  cbn zeta. unfold proj. induction es as [|[[] l] es (IH1 & IH2 & IH3)]; cbn; rewrite ?N.eqb_refl; cbn;
    rewrite ?IH1, ?IH2, ?IH3; auto.
Qed.

Theorem monitor_accepts_model size pid atts sm sf : holds_C11 (observe size pid atts sm sf) = true.
Proof.
  rewrite holds_C11_unfold. unfold obs_ok, observe. cbn [c_launches c_atts c_size c_mem].
  rewrite Nat.eqb_refl. cbn [andb].
  destruct (stream_projection atts sm) as [Hmo Hme]. destruct (stream_projection atts sf) as [Hfo Hfe].
  apply andb_true_iff. split.
  - (* memory *)
    set (es := run_entries true sm atts) in *.
    destruct (mem_log_suffix size (map snd es)) as [[pre Hpre] [Hlo Hhi]]. rewrite map_length in Hlo.
    unfold mem_ok. rewrite <- Hmo, <- Hme, proj_lengths.
    assert (Hlen : length (mem_log size (map snd es)) <= length es).
    { apply (f_equal (@length line)) in Hpre. rewrite map_length, app_length in Hpre. unfold entry in *. lia. }
    unfold entry in *. repeat (apply andb_true_iff; split); try (apply Nat.leb_le; lia).
    apply suffix_interleaving_spec. apply (interleave_split pre). rewrite <- Hpre. apply proj_partition.
  - (* file *)
    unfold file_ok. cbn [c_file c_proc c_procs].
    destruct (file_proj pid (run_entries true sf atts)) as (H1 & H2 & H3). cbn zeta in H1, H2, H3.
    unfold entry in *. rewrite H1, H2, H3, Hfo, Hfe, !lines_eqb_refl. reflexivity.
Qed.
