(* Proofs about the Lines model (property C11). *)
From Coq Require Import List NArith Bool Arith Lia.
From PC.LogBuf Require Import Model Proofs.
From PC.Lines Require Import Model.
Import ListNotations.

(* ---------- A. the specification function on texts ------------------------------------------ *)

Lemma split_lines_no_nl l : no_nl l -> split_lines l = tail_line l.
Proof.
  unfold no_nl. induction l as [|c r IH]; intros H; [reflexivity|].
  cbn [split_lines]. destruct (N.eqb_spec c nl) as [->|Hc]; [exfalso; apply H; now left|].
  rewrite IH by (intros Hin; apply H; now right). destruct r; reflexivity.
Qed.

Lemma split_lines_app_nl l r : no_nl l -> split_lines (l ++ nl :: r) = l :: split_lines r.
Proof.
  unfold no_nl. induction l as [|c l IH]; intros H; cbn [app split_lines].
  - now rewrite N.eqb_refl.
  - destruct (N.eqb_spec c nl) as [->|Hc]; [exfalso; apply H; now left|].
    rewrite IH by (intros Hin; apply H; now right). reflexivity.
Qed.

(* every newline-terminated line once, in order, then the unterminated tail if non-empty *)
Theorem split_lines_text ls t :
  Forall no_nl ls -> no_nl t -> split_lines (text_of ls t) = ls ++ tail_line t.
Proof.
  unfold text_of. induction 1 as [|l ls Hl Hls IH]; intros Ht; cbn [map concat app].
  - now apply split_lines_no_nl.
  - rewrite <- !app_assoc. cbn [app]. rewrite split_lines_app_nl by assumption. now rewrite IH.
Qed.

(* ... and every byte string is such a text, so the theorem above speaks about all of them *)
Theorem text_decompose s : exists ls t, Forall no_nl ls /\ no_nl t /\ s = text_of ls t.
Proof.
  induction s as [|c r (ls & t & Hls & Ht & ->)].
  - exists [], []. repeat split; [constructor|intros []].
  - destruct (N.eqb_spec c nl) as [->|Hc].
    + exists ([] :: ls), t. repeat split; [constructor; [intros []|assumption]|assumption].
    + destruct ls as [|l ls].
      * exists [], (c :: t). repeat split; [constructor|].
        intros [E|Hin]; [now apply Hc|now apply Ht].
      * exists ((c :: l) :: ls), t. inversion Hls; subst. repeat split; [|assumption].
        constructor; [|assumption]. intros [E|Hin]; [now apply Hc|now apply H1].
Qed.

Lemma split_lines_no_inner_nl s : Forall no_nl (split_lines s).
Proof.
  destruct (text_decompose s) as (ls & t & Hls & Ht & ->).
  rewrite split_lines_text by assumption. apply Forall_app. split; [assumption|].
  destruct t; constructor; [assumption|constructor].
Qed.

(* ---------- B. the reader: chunking is irrelevant ------------------------------------------- *)

Lemma feed_app c1 : forall rp c2,
  feed rp (c1 ++ c2) = let '(p1, l1) := feed rp c1 in let '(p2, l2) := feed p1 c2 in (p2, l1 ++ l2).
Proof.
  induction c1 as [|c r IH]; intros rp c2; cbn [app feed].
  - now destruct (feed rp c2).
  - destruct (N.eqb c nl).
    + rewrite IH. destruct (feed [] r) as [p1 l1]. now destruct (feed p1 c2).
    + apply IH.
Qed.

Lemma feed_all_concat chunks : forall rp, feed_all rp chunks = feed rp (concat chunks).
Proof.
  induction chunks as [|ch r IH]; intros rp; cbn [feed_all concat]; [reflexivity|].
  rewrite feed_app. destruct (feed rp ch) as [p l]. now rewrite IH.
Qed.

Lemma feed_pending_no_nl s : forall rp, no_nl rp -> no_nl (fst (feed rp s)).
Proof.
  unfold no_nl. induction s as [|c r IH]; intros rp H; cbn [feed]; [assumption|].
  destruct (N.eqb_spec c nl) as [->|Hc].
  - specialize (IH [] (fun x => x)). destruct (feed [] r). exact IH.
  - apply IH. intros [E|Hin]; [now apply Hc|now apply H].
Qed.

Lemma no_nl_rev l : no_nl l -> no_nl (rev l).
Proof. unfold no_nl. intros H Hin. apply H. now apply in_rev. Qed.

Lemma feed_split s : forall rp, no_nl rp ->
  snd (feed rp s) ++ eof true (fst (feed rp s)) = split_lines (rev rp ++ s).
Proof.
  induction s as [|c r IH]; intros rp H; cbn [feed].
  - cbn [fst snd app]. rewrite app_nil_r, split_lines_no_nl by now apply no_nl_rev.
    unfold eof, tail_line. rewrite <- rev_alt. destruct rp as [|x rp]; [reflexivity|].
    destruct (rev (x :: rp)) eqn:E; [|reflexivity].
    apply (f_equal (@length N)) in E. rewrite rev_length in E. discriminate.
  - destruct (N.eqb_spec c nl) as [->|Hc].
    + specialize (IH [] (fun x => x)). destruct (feed [] r) as [p ls]. cbn [fst snd] in *.
      rewrite <- rev_alt. rewrite split_lines_app_nl by now apply no_nl_rev. cbn [app]. f_equal. exact IH.
    + rewrite IH.
      * cbn [rev]. now rewrite <- app_assoc.
      * intros [E|Hin]; [now apply Hc|now apply H].
Qed.

(* C11_chunking: for EVERY way of cutting a byte string into chunks the repaired reader emits split_lines *)
Theorem emit_all_fixed chunks : emit_all true chunks = split_lines (concat chunks).
Proof.
  unfold emit_all. rewrite feed_all_concat.
  pose proof (feed_split (concat chunks) [] (fun x => x)) as H.
  destruct (feed [] (concat chunks)). exact H.
Qed.

Theorem chunking ls t chunks :
  Forall no_nl ls -> no_nl t -> concat chunks = text_of ls t ->
  emit_all true chunks = ls ++ tail_line t.
Proof. intros Hls Ht E. rewrite emit_all_fixed, E. now apply split_lines_text. Qed.

(* the unchanged reader: the terminated lines only *)
Lemma eof_true_false p ls : ls ++ eof false p = ls.
Proof. cbn. apply app_nil_r. Qed.

Lemma feed_text ls : forall t rp, Forall no_nl ls -> no_nl t -> no_nl rp ->
  feed rp (text_of ls t) =
    match ls with
    | [] => (rev t ++ rp, [])
    | l :: r => (rev t, (rev rp ++ l) :: r)
    end.
Proof.
  assert (Hplain : forall t rp, no_nl t -> feed rp t = (rev t ++ rp, [])).
  { induction t as [|c t IHt]; intros rp Ht; cbn [feed]; [reflexivity|].
    destruct (N.eqb_spec c nl) as [->|Hc]; [exfalso; apply Ht; now left|].
    rewrite IHt by (intros Hin; apply Ht; now right). cbn [rev]. now rewrite <- app_assoc. }
  induction ls as [|l ls IH]; intros t rp Hls Ht Hrp.
  - unfold text_of. cbn [map concat app]. now apply Hplain.
  - inversion Hls as [|? ? Hl Hls']; subst.
    unfold text_of. cbn [map concat]. rewrite <- !app_assoc. rewrite feed_app.
    rewrite (Hplain l rp Hl). cbn [app feed]. rewrite N.eqb_refl, <- rev_alt.
    fold (text_of ls t). rewrite (IH t [] Hls' Ht (fun x => x)).
    rewrite rev_app_distr, rev_involutive.
    destruct ls; cbn [rev app]; now rewrite ?app_nil_r.
Qed.

Theorem emit_all_original ls t chunks :
  Forall no_nl ls -> no_nl t -> concat chunks = text_of ls t -> emit_all false chunks = ls.
Proof.
  intros Hls Ht E. unfold emit_all. rewrite feed_all_concat, E.
  rewrite (feed_text ls t [] Hls Ht (fun x => x)). destruct ls; cbn; now rewrite ?app_nil_r.
Qed.

Definition ends_with_nl (s : list N) : bool :=
  match rev s with [] => true | c :: _ => N.eqb c nl end.

Theorem emit_all_original_partial chunks :
  ends_with_nl (concat chunks) = true -> emit_all false chunks = split_lines (concat chunks).
Proof.
  intros H. destruct (text_decompose (concat chunks)) as (ls & t & Hls & Ht & E).
  rewrite (emit_all_original ls t chunks Hls Ht E), E, split_lines_text by assumption.
  destruct t as [|c t]; [now rewrite app_nil_r|exfalso].
  unfold ends_with_nl in H. rewrite E in H. unfold text_of in H. rewrite rev_app_distr in H.
  destruct (rev (c :: t)) as [|x r] eqn:Er.
  - apply (f_equal (@length N)) in Er. rewrite rev_length in Er. discriminate.
  - cbn [app] in H. apply N.eqb_eq in H. subst x. apply Ht. apply in_rev. rewrite Er. now left.
Qed.

Theorem emit_all_original_refuted :
  exists chunks, emit_all false chunks <> split_lines (concat chunks).
Proof. exists [[97; 10; 98]%N]. vm_compute. discriminate. Qed.

(* ---------- C. two streams into one sink ----------------------------------------------------- *)

Inductive Interleave {A} : list A -> list A -> list A -> Prop :=
| il_nil : Interleave [] [] []
| il_l x a b m : Interleave a b m -> Interleave (x :: a) b (x :: m)
| il_r y a b m : Interleave a b m -> Interleave a (y :: b) (y :: m).

Lemma interleave_nil_l {A} (b : list A) : Interleave [] b b.
Proof. induction b; constructor; assumption. Qed.
Lemma interleave_nil_r {A} (a : list A) : Interleave a [] a.
Proof. induction a; constructor; assumption. Qed.
Lemma interleave_app {A} (a b : list A) : Interleave a b (a ++ b).
Proof. induction a; cbn; [apply interleave_nil_l|now constructor]. Qed.

Lemma merge_sound {A} sched : forall a b : list A, Interleave a b (merge sched a b).
Proof.
  induction sched as [|[] s IH]; intros a b; cbn [merge].
  - apply interleave_app.
  - destruct a; [apply IH|constructor; apply IH].
  - destruct b; [apply IH|constructor; apply IH].
Qed.

(* every interleaving is the result of some schedule *)
Lemma merge_complete {A} (a b m : list A) : Interleave a b m -> exists sched, merge sched a b = m.
Proof.
  induction 1 as [|x a b m _ [s Hs]|y a b m _ [s Hs]].
  - now exists [].
  - exists (true :: s). cbn. now rewrite Hs.
  - exists (false :: s). cbn. now rewrite Hs.
Qed.

Theorem merge_iff {A} (a b m : list A) : Interleave a b m <-> exists sched, merge sched a b = m.
Proof.
  split; [apply merge_complete|]. intros [s <-]. apply merge_sound.
Qed.

Lemma filter_interleave {A} (f : A -> bool) a b m : Interleave a b m ->
  Forall (fun x => f x = true) a -> Forall (fun x => f x = false) b -> filter f m = a.
Proof.
  induction 1 as [|x a b m _ IH|y a b m _ IH]; intros Ha Hb; cbn [filter]; [reflexivity| |].
  - inversion Ha; subst. rewrite H1. f_equal. now apply IH.
  - inversion Hb; subst. rewrite H1. now apply IH.
Qed.
Lemma filter_interleave_r {A} (f : A -> bool) a b m : Interleave a b m ->
  Forall (fun x => f x = false) a -> Forall (fun x => f x = true) b -> filter f m = b.
Proof.
  induction 1 as [|x a b m _ IH|y a b m _ IH]; intros Ha Hb; cbn [filter]; [reflexivity| |].
  - inversion Ha; subst. rewrite H1. now apply IH.
  - inversion Hb; subst. rewrite H1. f_equal. now apply IH.
Qed.

Lemma tag_forall s s' ls : Forall (fun e : entry => src_eqb (fst e) s' = src_eqb s s') (tag s ls).
Proof. unfold tag. induction ls; cbn; constructor; auto. Qed.

Lemma map_snd_tag s ls : map snd (tag s ls) = ls.
Proof. unfold tag. rewrite map_map. cbn. apply map_id. Qed.

Lemma proj_interleave a b m : Interleave (tag SOut a) (tag SErr b) m ->
  proj SOut m = a /\ proj SErr m = b.
Proof.
  intros H. unfold proj. split.
  - rewrite (filter_interleave _ _ _ _ H); [apply map_snd_tag|apply (tag_forall SOut SOut)|apply (tag_forall SErr SOut)].
  - rewrite (filter_interleave_r _ _ _ _ H); [apply map_snd_tag|apply (tag_forall SOut SErr)|apply (tag_forall SErr SErr)].
Qed.

Lemma proj_app s x y : proj s (x ++ y) = proj s x ++ proj s y.
Proof. unfold proj. now rewrite filter_app, map_app. Qed.

Lemma proj_attempt sched a :
  proj SOut (attempt_entries true sched a) = split_lines (concat (a_out a)) /\
  proj SErr (attempt_entries true sched a) = split_lines (concat (a_err a)).
Proof.
  unfold attempt_entries. rewrite !emit_all_fixed. apply proj_interleave, merge_sound.
Qed.

(* per-stream order: whatever the chunkings and whatever the interleavings of the two handlers,
   the projection of the process's record sequence onto a stream is that stream's lines *)
Theorem stream_projection atts : forall scheds,
  proj SOut (run_entries true scheds atts) = expected_out (out_texts atts) /\
  proj SErr (run_entries true scheds atts) = expected_err (err_texts atts).
Proof.
  induction atts as [|a rest IH]; intros scheds; [now split|].
  destruct rest as [|a2 rest].
  - cbn [run_entries out_texts err_texts map expected_out expected_err concat].
    rewrite app_nil_r. apply proj_attempt.
  - specialize (IH (tl scheds)). destruct IH as [IHo IHe].
    destruct (proj_attempt (hd [] scheds) a) as [Ho He].
    change (run_entries true scheds (a :: a2 :: rest))
      with (attempt_entries true (hd [] scheds) a ++ [sep] ++ run_entries true (tl scheds) (a2 :: rest)).
    rewrite !proj_app, IHo, IHe, Ho, He. split; reflexivity.
Qed.

(* ---------- D. the in-memory log ------------------------------------------------------------- *)

Lemma mem_fold_inv {A} size (msgs : list A) : forall w b,
  buf_inv size w b -> buf_inv size (w ++ msgs) (fold_left (write size) msgs b).
Proof.
  induction msgs as [|x r IH]; intros w b H; cbn [fold_left].
  - now rewrite app_nil_r.
  - replace (w ++ x :: r) with ((w ++ [x]) ++ r) by now rewrite <- app_assoc.
    apply IH. now apply write_inv.
Qed.

Theorem mem_log_suffix {A} size (msgs : list A) :
  (exists pre, msgs = pre ++ mem_log size msgs) /\
  Nat.min (length msgs) size <= length (mem_log size msgs) <= size + slack.
Proof.
  unfold mem_log. apply (mem_fold_inv size msgs [] []). split; [now exists []|cbn; lia].
Qed.

Lemma mem_fold_all {A} size (msgs : list A) : forall b,
  length b + length msgs <= size + slack -> fold_left (write size) msgs b = b ++ msgs.
Proof.
  induction msgs as [|x r IH]; intros b H; cbn [fold_left]; [now rewrite app_nil_r|].
  cbn [length] in H. unfold write at 2.
  destruct (Nat.ltb_spec (size + slack) (length (b ++ [x]))) as [Hlt|Hge].
  - rewrite app_length in Hlt. cbn in Hlt. lia.
  - rewrite IH; [now rewrite <- app_assoc|]. rewrite app_length. cbn. lia.
Qed.

(* as long as no more than the configured length (+ slack) was written, the log holds everything *)
Theorem mem_log_all {A} size (msgs : list A) : length msgs <= size + slack -> mem_log size msgs = msgs.
Proof. intros H. unfold mem_log. now rewrite mem_fold_all. Qed.

(* ---------- E. the file logger ---------------------------------------------------------------- *)
Section LoggerProofs.
Context {E : Type}.
Implicit Types (s : lg E) (ops : list (lop E)).

Lemma lrun_closed cap fe ops : forall s s',
  lclosed s = true -> lq s = [] -> lw s = [] -> lrun cap fe s ops = Some s' ->
  lclosed s' = true /\ lq s' = [] /\ lw s' = [] /\ lf s' = lf s.
Proof.
  induction ops as [|o ops IH]; intros s s' Hc Hq Hw H; cbn [lrun] in H.
  - inversion H; subst. auto.
  - destruct o as [e| |k|]; cbn [lstep] in H; rewrite ?Hc, ?Hq in H; try discriminate;
      try (now apply (IH s s')).
    rewrite Hw, skipn_nil, firstn_nil in H. apply IH in H; try reflexivity.
    cbn [lf] in H. now rewrite app_nil_r in H.
Qed.

Lemma lrun_open cap fe ops : forall s s',
  lclosed s = false -> lrun cap fe s ops = Some s' ->
  if has_close ops
  then lclosed s' = true /\ lq s' = [] /\ lw s' = [] /\ lf s' = lf s ++ lw s ++ lq s ++ sent_before_close ops
  else lclosed s' = false /\ lf s' ++ lw s' ++ lq s' = lf s ++ lw s ++ lq s ++ sent_before_close ops.
Proof.
  induction ops as [|o ops IH]; intros s s' Hc H; cbn [lrun] in H.
  - inversion H; subst. cbn. now rewrite app_nil_r.
  - destruct o as [e| |k|]; cbn [lstep] in H; cbn [has_close sent_before_close].
    + rewrite Hc in H. destruct (Nat.ltb (length (lq s)) cap); [|discriminate].
      apply IH in H; [|reflexivity]. cbn [lq lw lf] in H.
      destruct (has_close ops); rewrite <- ?app_assoc in H; exact H.
    + destruct (lq s) as [|e r] eqn:Eq; [discriminate|]. destruct fe.
      * apply IH in H; [|exact Hc]. cbn [lq lw lf] in H.
        destruct (has_close ops); cbn [app] in H; rewrite <- ?app_assoc in H; cbn [app] in H |- *; exact H.
      * apply IH in H; [|exact Hc]. cbn [lq lw lf] in H.
        destruct (has_close ops); rewrite <- ?app_assoc in H; cbn [app] in H |- *; exact H.
    + apply IH in H; [|exact Hc]. cbn [lq lw lf] in H. rename H into IH'.
      assert (Ek : (lf s ++ firstn k (lw s)) ++ skipn k (lw s) = lf s ++ lw s)
        by now rewrite <- app_assoc, firstn_skipn.
      destruct (has_close ops).
      * destruct IH' as (H1 & H2 & H3 & H4). repeat split; try assumption.
        rewrite H4. rewrite (app_assoc _ (skipn k (lw s))), Ek. now rewrite <- app_assoc.
      * destruct IH' as (H1 & H4). split; [assumption|].
        rewrite H4. rewrite (app_assoc _ (skipn k (lw s))), Ek. now rewrite <- app_assoc.
    + rewrite Hc in H.
      apply lrun_closed in H; [|reflexivity..]. cbn [lf] in H.
      destruct H as (H1 & H2 & H3 & H4). repeat split; try assumption.
      rewrite H4. now rewrite app_nil_r.
Qed.

(* FIFO drained at close: once Close has returned the file holds exactly the records handed over
   before it, in order, each once - for every interleaving of senders, collector and flushes *)
Theorem file_fifo cap fe ops s :
  lrun cap fe linit ops = Some s -> has_close ops = true -> lf s = sent_before_close ops /\ lclosed s = true.
Proof.
  intros H Hc. pose proof (lrun_open cap fe ops linit s eq_refl H) as P. rewrite Hc in P.
  cbn in P. tauto.
Qed.

(* nothing is lost, duplicated or reordered in flight either *)
Theorem file_in_flight cap fe ops s :
  lrun cap fe linit ops = Some s -> has_close ops = false ->
  lf s ++ lw s ++ lq s = sent_before_close ops.
Proof.
  intros H Hc. pose proof (lrun_open cap fe ops linit s eq_refl H) as P. rewrite Hc in P.
  cbn in P. tauto.
Qed.

(* a shared (unified) file: the records of one producer, selected by any predicate, keep their order *)
Corollary file_projection cap fe ops s (f : E -> bool) :
  lrun cap fe linit ops = Some s -> has_close ops = true ->
  filter f (lf s) = filter f (sent_before_close ops).
Proof. intros H Hc. now rewrite (proj1 (file_fifo cap fe ops s H Hc)). Qed.
End LoggerProofs.

(* what is handed over after Close is lost (the reason why daemons are out of scope: their handlers
   may still be running when the process is declared ended) *)
Theorem send_after_close_lost :
  exists (ops : list (lop N)) s, lrun 100 true linit ops = Some s /\ In (LSend 7%N) ops /\ ~ In 7%N (lf s).
Proof.
  exists [LSend 1%N; LClose; LSend 7%N], (mkLg [] [] [1%N] true).
  split; [reflexivity|]. split; [cbn; tauto|]. cbn. intros [H|[]]. discriminate.
Qed.

(* ---------- F. the process and its two sinks together ---------------------------------------- *)

(* per-process log file: everything the two handlers (and the restart separator) handed over reaches the
   file once the logger was closed; per stream that is exactly the stream's lines *)
Theorem file_streams cap fe atts scheds (ops : list (lop entry)) s :
  sent_before_close ops = run_entries true scheds atts ->
  lrun cap fe linit ops = Some s -> has_close ops = true ->
  proj SOut (lf s) = expected_out (out_texts atts) /\ proj SErr (lf s) = expected_err (err_texts atts).
Proof.
  intros E H Hc. rewrite (proj1 (file_fifo cap fe ops s H Hc)), E. apply stream_projection.
Qed.

Theorem memory_streams size atts scheds :
  let es := run_entries true scheds atts in
  let b := mem_log size (map snd es) in
  (exists pre, map snd es = pre ++ b) /\
  Nat.min (length es) size <= length b <= size + slack /\
  (length es <= size + slack -> b = map snd es) /\
  proj SOut es = expected_out (out_texts atts) /\ proj SErr es = expected_err (err_texts atts).
Proof.
  cbn zeta. pose proof (mem_log_suffix size (map snd (run_entries true scheds atts))) as [Hs Hb].
  rewrite map_length in Hb. repeat split; try tauto; try apply stream_projection.
  intros Hl. apply mem_log_all. now rewrite map_length.
Qed.
