(* Model of the output capture path of one process (property C11).  No proofs in this file.

   Go code modelled (line numbers of /repo at the pinned commit + hooks):
     Process.handleOutput     src/app/process.go:620-647   bufio.Reader.ReadString('\n') loop, TrimSuffix "\n",
                                                           EOF handling (original: break, dropping the pending
                                                           bytes; repaired (fixes/F5-last-line.diff): the non-empty
                                                           line returned together with io.EOF is handed over first)
     Process.handleInfo/Error src/app/process.go:671-685   logger.Info/Error(message) ; logBuffer.Write(message)
     run loop                 src/app/process.go:119-176   per attempt: two handler goroutines (stdout, stderr),
                                                           waitForStdOutErr, Wait; before a relaunch handleInfo("\n")
     onProcessStart/End       src/app/process.go:477-494   logger.Open once / logger.Close once (per-process file)
     ProjectRunner.Run        src/app/project_runner.go:90-95  unified logger opened before / closed after all processes
     PCLog                    src/pclog/logger_facade.go:130-187  Info/Error: isClosed check, send into a channel of
                                                           capacity 100; runCollector: receive, write into a
                                                           bufio.Writer, Flush when flush_each_line; Close (once):
                                                           isClosed, close(chan), wait for the collector (drains the
                                                           channel), Flush, close the file
     ProcessLogBuffer.Write   src/pclog/process_log_buffer.go:26-37  (model: PC.LogBuf.Model.write)

   Bytes are N, a byte string is list N, a line is a byte string without its terminating newline. *)
From Coq Require Import List NArith Bool Arith.
From PC.LogBuf Require Import Model.
Import ListNotations.

Definition nl : N := 10%N.
Definition line := list N.

(* ---------------------------------------------------------------------------------------------
   1. The line reader.  State = the bytes read since the last newline (kept REVERSED so that
      appending a byte is O(1), [rev_append rp []] = [rev rp] puts them back in order; bufio.ReadString accumulates across buffer fills, so there is no
      bound on the length of a line).  [feed rp chunk] consumes one chunk (whatever a Read on the
      pipe returned) and gives the new pending bytes and the lines handed to the handler, each
      without its "\n" (strings.TrimSuffix(line, "\n")). *)
Fixpoint feed (rp : list N) (chunk : list N) : list N * list line :=
  match chunk with
  | [] => (rp, [])
  | c :: r =>
      if N.eqb c nl then let '(p, ls) := feed [] r in (p, rev_append rp [] :: ls)
      else feed (c :: rp) r
  end.

Fixpoint feed_all (rp : list N) (chunks : list (list N)) : list N * list line :=
  match chunks with
  | [] => (rp, [])
  | ch :: r => let '(p, ls) := feed rp ch in
               let '(p', ls') := feed_all p r in (p', ls ++ ls')
  end.

(* EOF: ReadString returns the pending bytes together with io.EOF.
   fixed = false: the unchanged code breaks out of the loop (pending bytes are dropped, finding F5);
   fixed = true : the repaired code hands a non-empty pending line to the handler, then stops. *)
Definition eof (fixed : bool) (rp : list N) : list line :=
  if fixed then match rp with [] => [] | _ => [rev_append rp []] end else [].

Definition emit_all (fixed : bool) (chunks : list (list N)) : list line :=
  let '(p, ls) := feed_all [] chunks in ls ++ eof fixed p.

(* ---------------------------------------------------------------------------------------------
   2. Specification side: the lines of a byte string, by structural recursion over the string
      (no reader state): every newline ends a line; what follows the last newline is a line
      only if it is non-empty. *)
Fixpoint split_lines (s : list N) : list line :=
  match s with
  | [] => []
  | c :: r =>
      if N.eqb c nl then [] :: split_lines r
      else match split_lines r with
           | [] => [[c]]
           | l :: ls => (c :: l) :: ls
           end
  end.

(* the text made of newline-terminated lines ls followed by an unterminated tail t *)
Definition text_of (ls : list line) (t : line) : list N :=
  concat (map (fun l => l ++ [nl]) ls) ++ t.
Definition tail_line (t : line) : list line := match t with [] => [] | _ => [t] end.
Definition no_nl (l : line) : Prop := ~ In nl l.

(* ---------------------------------------------------------------------------------------------
   3. One process: attempts, two streams, the two sinks. *)
Inductive src := SOut | SErr.
Definition src_eqb (a b : src) : bool :=
  match a, b with SOut, SOut | SErr, SErr => true | _, _ => false end.
Definition entry : Type := src * line.

(* handleInfo("\n") between two attempts (process.go:173): an info-level message that is the
   one-byte string "\n" (a stream line can never be equal to it: lines contain no newline). *)
Definition sep : entry := (SOut, [nl]).

Record attempt := mkAtt { a_out : list (list N); a_err : list (list N) }.  (* chunks as delivered *)

(* Two goroutines append concurrently to a sink that serialises them (channel send / buffer mutex).
   A schedule says whose turn it is (true = first sequence); what is left when the schedule ends is
   flushed, first sequence first.  Every interleaving is produced by some schedule (Proofs.merge_complete). *)
Fixpoint merge {A} (sched : list bool) (a b : list A) : list A :=
  match sched with
  | [] => a ++ b
  | true :: s => match a with x :: a' => x :: merge s a' b | [] => merge s a b end
  | false :: s => match b with y :: b' => y :: merge s a b' | [] => merge s a b end
  end.

Definition tag (s : src) (ls : list line) : list entry := map (pair s) ls.

Definition attempt_entries (fixed : bool) (sched : list bool) (a : attempt) : list entry :=
  merge sched (tag SOut (emit_all fixed (a_out a))) (tag SErr (emit_all fixed (a_err a))).

(* the whole life of the process: attempt, separator, attempt, ... (one schedule per attempt;
   a missing schedule is the empty one) *)
Fixpoint run_entries (fixed : bool) (scheds : list (list bool)) (atts : list attempt) : list entry :=
  match atts with
  | [] => []
  | [a] => attempt_entries fixed (hd [] scheds) a
  | a :: rest => attempt_entries fixed (hd [] scheds) a ++ sep :: run_entries fixed (tl scheds) rest
  end.

Definition proj (s : src) (es : list entry) : list line :=
  map snd (filter (fun e => src_eqb (fst e) s) es).

(* what each stream must contribute, by the specification function *)
Fixpoint expected_out (texts : list (list N)) : list line :=
  match texts with
  | [] => []
  | [t] => split_lines t
  | t :: rest => split_lines t ++ [nl] :: expected_out rest
  end.
Definition expected_err (texts : list (list N)) : list line := concat (map split_lines texts).

Definition out_texts (atts : list attempt) : list (list N) := map (fun a => concat (a_out a)) atts.
Definition err_texts (atts : list attempt) : list (list N) := map (fun a => concat (a_err a)) atts.

(* in-memory log: ProcessLogBuffer of configured length [size] *)
Definition mem_log {A} (size : nat) (msgs : list A) : list A := fold_left (write size) msgs [].

(* ---------------------------------------------------------------------------------------------
   4. The file logger (PCLog), generic in the record type E.
      lq = events in the channel, lw = records in the bufio.Writer, lf = records in the file. *)
Section Logger.
Context {E : Type}.

Record lg := mkLg { lq : list E; lw : list E; lf : list E; lclosed : bool }.

Inductive lop :=
| LSend (e : E)      (* PCLog.Info / PCLog.Error *)
| LCollect           (* one iteration of runCollector *)
| LFlush (k : nat)   (* the bufio.Writer writes through on its own when its buffer fills: any prefix *)
| LClose.            (* PCLog.Close *)

Definition linit : lg := mkLg [] [] [] false.

(* None = the operation is not enabled (send on a full channel blocks; collector on an empty one waits) *)
Definition lstep (cap : nat) (flush_each : bool) (s : lg) (o : lop) : option lg :=
  match o with
  | LSend e =>
      if lclosed s then Some s                                    (* isClosed: silently dropped *)
      else if Nat.ltb (length (lq s)) cap then Some (mkLg (lq s ++ [e]) (lw s) (lf s) false)
      else None
  | LCollect =>
      match lq s with
      | [] => None
      | e :: r => if flush_each then Some (mkLg r [] (lf s ++ lw s ++ [e]) (lclosed s))
                  else Some (mkLg r (lw s ++ [e]) (lf s) (lclosed s))
      end
  | LFlush k => Some (mkLg (lq s) (skipn k (lw s)) (lf s ++ firstn k (lw s)) (lclosed s))
  | LClose =>
      if lclosed s then Some s                                    (* sync.Once *)
      else Some (mkLg [] [] (lf s ++ lw s ++ lq s) true)          (* drain, Flush, close *)
  end.

Fixpoint lrun (cap : nat) (flush_each : bool) (s : lg) (ops : list lop) : option lg :=
  match ops with
  | [] => Some s
  | o :: r => match lstep cap flush_each s o with
              | Some s' => lrun cap flush_each s' r
              | None => None
              end
  end.

(* the records handed to the logger before its (first) Close / at all *)
Fixpoint sent_before_close (ops : list lop) : list E :=
  match ops with
  | [] => []
  | LSend e :: r => e :: sent_before_close r
  | LClose :: _ => []
  | _ :: r => sent_before_close r
  end.
Fixpoint has_close (ops : list lop) : bool :=
  match ops with
  | [] => false
  | LClose :: _ => true
  | _ :: r => has_close r
  end.
End Logger.
Arguments lg : clear implicits.
Arguments lop : clear implicits.
