(* Proofs for the Lockset model: lockset discipline => no race; acyclic acquisition order => no
   lock deadlock.  Both for every number of threads, every program and every interleaving. *)
From Coq Require Import List Bool Arith Lia.
Import ListNotations.
From PC.Lockset Require Import Model Check.

(* ---- lists --------------------------------------------------------------------------------- *)
Lemma nth_error_set_same : forall A (l : list A) i x y,
  nth_error l i = Some y -> nth_error (set_nth i x l) i = Some x.
Proof.
  induction l as [|a l IH]; intros [|i] x y H; simpl in *; try discriminate; auto.
  eapply IH; eauto.
Qed.

Lemma nth_error_set_other : forall A (l : list A) i j x,
  i <> j -> nth_error (set_nth i x l) j = nth_error l j.
Proof.
  induction l as [|a l IH]; intros [|i] [|j] x H; simpl; auto; try congruence.
Qed.

Lemma nth_error_set_inv : forall A (l : list A) i j x t,
  nth_error (set_nth i x l) j = Some t ->
  (i = j /\ t = x) \/ (i <> j /\ nth_error l j = Some t).
Proof.
  intros A l i j x t H. destruct (Nat.eq_dec i j) as [->|N].
  - left. split; auto.
    destruct (nth_error l j) eqn:E.
    + rewrite (nth_error_set_same _ _ _ _ _ E) in H. congruence.
    + exfalso. revert j H E. induction l as [|a l IH]; intros [|j] H E; simpl in *; try discriminate.
      eapply IH; eauto.
  - right. split; auto. rewrite nth_error_set_other in H; auto.
Qed.

Lemma holds_In : forall t l, holds t l = true <-> In l (held t).
Proof.
  intros t l. unfold holds. rewrite existsb_exists. split.
  - intros [x [Hx E]]. apply Nat.eqb_eq in E. subst. auto.
  - intros H. exists l. split; auto. apply Nat.eqb_refl.
Qed.

Lemma lock_free_not_held : forall s l j tj,
  lock_free s l = true -> nth_error s j = Some tj -> ~ In l (held tj).
Proof.
  intros s l j tj F N I. unfold lock_free in F. rewrite forallb_forall in F.
  specialize (F tj (nth_error_In _ _ N)). apply holds_In in I. rewrite I in F. discriminate.
Qed.

(* ---- invariant for race freedom ------------------------------------------------------------ *)
Definition excl (s : state) : Prop :=
  forall i j ti tj l, i <> j -> nth_error s i = Some ti -> nth_error s j = Some tj ->
    In l (held ti) -> In l (held tj) -> False.

Definition all_conform (T : table) (s : state) : Prop :=
  forall i t, nth_error s i = Some t -> conforms T (held t) (prog t).

Lemma init_nth : forall progs i t, nth_error (init_state progs) i = Some t ->
  exists p, nth_error progs i = Some p /\ t = mkThread [] p.
Proof.
  unfold init_state. induction progs as [|p ps IH]; intros [|i] t H; simpl in *; try discriminate.
  - inversion H. eauto.
  - apply IH; auto.
Qed.

Lemma excl_init : forall progs, excl (init_state progs).
Proof.
  intros progs i j ti tj l _ Hi _ Ii _. apply init_nth in Hi. destruct Hi as [p [_ ->]]. simpl in Ii. auto.
Qed.

Lemma conform_init : forall T progs, Forall (conforms T []) progs -> all_conform T (init_state progs).
Proof.
  intros T progs F i t H. apply init_nth in H. destruct H as [p [Hp ->]]. simpl.
  rewrite Forall_forall in F. apply F. eapply nth_error_In; eauto.
Qed.

Lemma step_conform : forall T s s', all_conform T s -> step s s' -> all_conform T s'.
Proof.
  intros T s s' C St. inversion St as [s0 i t t' Hi Ht]; subst. intros j u Hj.
  apply nth_error_set_inv in Hj. destruct Hj as [[-> ->]|[N Hj]]; [|eapply C; eauto].
  specialize (C _ _ Hi). unfold thread_step in Ht. destruct (prog t) as [|[l|l|v w] r] eqn:P; try discriminate.
  - destruct (lock_free s l); inversion Ht; subst; simpl in *. exact C.
  - inversion Ht; subst; simpl in *. exact C.
  - inversion Ht; subst; simpl in *. exact (proj2 C).
Qed.

Lemma step_excl : forall s s', excl s -> step s s' -> excl s'.
Proof.
  intros s s' X St. inversion St as [s0 k t t' Hk Ht]; subst.
  assert (Sub : forall l, In l (held t') -> In l (held t) \/ (lock_free s l = true)).
  { intros l I. unfold thread_step in Ht. destruct (prog t) as [|[m|m|v w] r] eqn:P; try discriminate.
    - destruct (lock_free s m) eqn:F; inversion Ht; subst; simpl in *.
      destruct I as [<-|I]; auto.
    - inversion Ht; subst; simpl in *. left. apply in_remove in I. tauto.
    - inversion Ht; subst; simpl in *. auto. }
  intros i j ti tj l N Hi Hj Ii Ij.
  apply nth_error_set_inv in Hi. apply nth_error_set_inv in Hj.
  destruct Hi as [[-> ->]|[Ni Hi]]; destruct Hj as [[-> ->]|[Nj Hj]].
  - congruence.
  - destruct (Sub _ Ii) as [I|F].
    + eapply (X i j); eauto.
    + eapply lock_free_not_held; eauto.
  - destruct (Sub _ Ij) as [I|F].
    + eapply (X i j); eauto.
    + eapply lock_free_not_held; [exact F| exact Hi | exact Ii].
  - eapply (X i j); eauto.
Qed.

Lemma reach_inv : forall T progs s, Forall (conforms T []) progs ->
  reachable (init_state progs) s -> all_conform T s /\ excl s.
Proof.
  intros T progs s F R. induction R as [|s s' R [C X] St].
  - split; [apply conform_init; auto | apply excl_init].
  - split; [eapply step_conform; eauto | eapply step_excl; eauto].
Qed.

Lemma share_In : forall a b, share a b = true -> exists l, In l a /\ In l b.
Proof.
  intros a b H. unfold share in H. apply existsb_exists in H. destruct H as [l [Ia H]].
  apply existsb_exists in H. destruct H as [m [Ib E]]. apply Nat.eqb_eq in E. subst. eauto.
Qed.

Lemma var_ok_pair : forall T v w1 w2 L1 L2, var_ok T v = true ->
  In (v, w1, L1) T -> In (v, w2, L2) T -> (w1 || w2) = true -> exists l, In l L1 /\ In l L2.
Proof.
  intros T v w1 w2 L1 L2 H I1 I2 W. unfold var_ok in H. cbv zeta in H. rewrite forallb_forall in H.
  assert (F : forall w L, In (v, w, L) T -> In (v, w, L) (filter (fun e => Nat.eqb (e_var e) v) T)).
  { intros w L I. apply filter_In. split; auto. unfold e_var. simpl. apply Nat.eqb_refl. }
  specialize (H _ (F _ _ I1)). rewrite forallb_forall in H. specialize (H _ (F _ _ I2)).
  unfold pair_ok, e_write, e_locks in H. simpl in H. rewrite W in H.
  apply share_In; auto.
Qed.

(* THEOREM: if every pair of conflicting table entries of v shares a lock, no reachable state of any
   set of conforming thread programs has two conflicting accesses to v simultaneously enabled. *)
Theorem lockset_race_free : forall (T : table) (v : var), var_ok T v = true ->
  forall progs, Forall (conforms T []) progs ->
  forall s, reachable (init_state progs) s -> ~ race_on v s.
Proof.
  intros T v OK progs F s R [i [j [ti [tj [wi [wj [ri [rj [N [Hi [Hj [Pi [Pj W]]]]]]]]]]]]].
  destruct (reach_inv T progs s F R) as [C X].
  pose proof (C _ _ Hi) as Ci. pose proof (C _ _ Hj) as Cj. rewrite Pi in Ci. rewrite Pj in Cj.
  simpl in Ci, Cj. destruct Ci as [[L1 [I1 S1]] _]. destruct Cj as [[L2 [I2 S2]] _].
  destruct (var_ok_pair _ _ _ _ _ _ OK I1 I2 W) as [l [A B]].
  eapply (X i j); eauto.
Qed.

Corollary ok_vars_race_free : forall (fs : list fact) (n : nat) (v : var),
  In v (ok_vars fs n) ->
  forall progs, Forall (conforms (table_of fs) []) progs ->
  forall s, reachable (init_state progs) s -> ~ race_on v s.
Proof.
  intros fs n v H. unfold ok_vars in H. apply filter_In in H. destruct H as [_ H].
  apply lockset_race_free; auto.
Qed.

(* conformsb reflects conforms (used by the examples) *)
Lemma inclb_incl : forall a b, inclb a b = true -> incl a b.
Proof.
  intros a b H x Hx. unfold inclb in H. rewrite forallb_forall in H. specialize (H _ Hx).
  apply existsb_exists in H. destruct H as [y [Iy E]]. apply Nat.eqb_eq in E. subst; auto.
Qed.

Lemma conformsb_sound : forall T p H, conformsb T H p = true -> conforms T H p.
Proof.
  intros T p. induction p as [|[l|l|v w] r IH]; intros H C; simpl in *; auto.
  apply andb_true_iff in C. destruct C as [E C]. split; auto.
  apply existsb_exists in E. destruct E as [[[v' w'] L] [I E]].
  unfold e_var, e_write, e_locks in E. simpl in E.
  apply andb_true_iff in E. destruct E as [E E3]. apply andb_true_iff in E. destruct E as [E1 E2].
  apply Nat.eqb_eq in E1. apply Bool.eqb_prop in E2. subst. exists L. split; auto. apply inclb_incl; auto.
Qed.

(* ---- programs built from the table's segments conform --------------------------------------- *)
Lemma conforms_acq_all : forall T L H q,
  (forall H', incl L H' -> incl H H' -> conforms T H' q) -> conforms T H (map Acq L ++ q).
Proof.
  intros T L. induction L as [|a L IH]; intros H q K; simpl.
  - apply K; [intros x []| apply incl_refl].
  - apply IH. intros H' I1 I2. apply K.
    + intros x [<-|Hx]; [apply I2; simpl; auto | apply I1; auto].
    + intros x Hx. apply I2. simpl; auto.
Qed.

Lemma conforms_rel_all : forall T L H q,
  (forall H', conforms T H' q) -> conforms T H (map Rel L ++ q).
Proof.
  intros T L. induction L as [|a L IH]; intros H q K; simpl; auto.
Qed.

Lemma segments_conform : forall T es H, Forall (fun e => In e T) es ->
  conforms T H (concat (map segment es)).
Proof.
  intros T es. induction es as [|e es IH]; intros H F; simpl; auto.
  inversion F as [|? ? Ie Fes]; subst. unfold segment. rewrite <- !app_assoc.
  apply conforms_acq_all. intros H' I1 _. simpl. split.
  - exists (e_locks e). split; auto. destruct e as [[v w] L]. exact Ie.
  - apply conforms_rel_all. intros H''. apply IH; auto.
Qed.

Theorem built_from_race_free : forall (T : table) (v : var), var_ok T v = true ->
  forall progs, Forall (built_from T) progs ->
  forall s, reachable (init_state progs) s -> ~ race_on v s.
Proof.
  intros T v OK progs F. apply (lockset_race_free T v OK).
  rewrite Forall_forall in *. intros p Hp. destruct (F p Hp) as [es [Fe ->]]. apply segments_conform; auto.
Qed.

(* ---- deadlock freedom ---------------------------------------------------------------------- *)
Definition all_ordered (E : list (lock * lock)) (s : state) : Prop :=
  forall i t, nth_error s i = Some t -> ordered E (held t) (prog t).

Lemma ordered_init : forall E progs, Forall (ordered E []) progs -> all_ordered E (init_state progs).
Proof.
  intros E progs F i t H. apply init_nth in H. destruct H as [p [Hp ->]]. simpl.
  rewrite Forall_forall in F. apply F. eapply nth_error_In; eauto.
Qed.

Lemma step_ordered : forall E s s', all_ordered E s -> step s s' -> all_ordered E s'.
Proof.
  intros E s s' C St. inversion St as [s0 i t t' Hi Ht]; subst. intros j u Hj.
  apply nth_error_set_inv in Hj. destruct Hj as [[-> ->]|[N Hj]]; [|eapply C; eauto].
  specialize (C _ _ Hi). unfold thread_step in Ht. destruct (prog t) as [|[l|l|v w] r] eqn:P; try discriminate.
  - destruct (lock_free s l); inversion Ht; subst; simpl in *. exact (proj2 C).
  - inversion Ht; subst; simpl in *. exact C.
  - inversion Ht; subst; simpl in *. exact C.
Qed.

Lemma reach_ordered : forall E progs s, Forall (ordered E []) progs ->
  reachable (init_state progs) s -> all_ordered E s.
Proof.
  intros E progs s F R. induction R as [|s s' R IH St].
  - apply ordered_init; auto.
  - eapply step_ordered; eauto.
Qed.

Lemma exists_max : forall (f : nat -> nat) (S : list nat), S <> [] ->
  exists i, In i S /\ forall j, In j S -> f j <= f i.
Proof.
  intros f S. induction S as [|a S IH]; intros N; [congruence|].
  destruct S as [|b S].
  - exists a. split; [simpl; auto|]. intros j [<-|[]]. lia.
  - destruct IH as [i [Ii M]]; [discriminate|].
    destruct (le_lt_dec (f a) (f i)).
    + exists i. split; [simpl; auto|]. intros j [<-|Hj]; auto.
    + exists a. split; [simpl; auto|]. intros j [<-|Hj]; [lia|]. specialize (M _ Hj). lia.
Qed.

(* THEOREM: if the acquisition-order relation has a strictly increasing rank (is acyclic) then no
   reachable state of programs that respect the relation is a lock deadlock. *)
Theorem order_deadlock_free : forall (rank : lock -> nat) (E : list (lock * lock)),
  order_ok rank E = true ->
  forall progs, Forall (ordered E []) progs ->
  forall s, reachable (init_state progs) s -> ~ deadlocked s.
Proof.
  intros rank E OK progs F s R [S [NE D]].
  pose proof (reach_ordered E progs s F R) as O.
  set (f := fun i => match wanted s i with Some l => rank l | None => 0 end).
  destruct (exists_max f S NE) as [i [Ii M]].
  destruct (D i Ii) as [l [Wi [j [tj [Ij [Hj Hl]]]]]].
  destruct (D j Ij) as [lj [Wj _]].
  specialize (M j Ij). unfold f in M. rewrite Wi, Wj in M.
  unfold wanted in Wj. rewrite Hj in Wj. destruct (prog tj) as [|[m| |] r] eqn:P; try discriminate.
  inversion Wj; subst m. specialize (O _ _ Hj). rewrite P in O. simpl in O. destruct O as [O _].
  specialize (O _ Hl). unfold order_ok in OK. rewrite forallb_forall in OK. specialize (OK _ O).
  simpl in OK. apply Nat.ltb_lt in OK. lia.
Qed.

(* ---- the conditions are not vacuous: without them the model does race / deadlock ------------- *)
Definition T_bad : table := [(0, true, [1]); (0, false, [])].
Definition progs_bad : list (list action) := [[Acq 1; Acc 0 true; Rel 1]; [Acc 0 false]].

Lemma unguarded_access_races :
  var_ok T_bad 0 = false /\ Forall (conforms T_bad []) progs_bad /\
  exists s, reachable (init_state progs_bad) s /\ race_on 0 s.
Proof.
  split; [reflexivity|]. split.
  - apply Forall_cons; [apply conformsb_sound; reflexivity|].
    apply Forall_cons; [apply conformsb_sound; reflexivity|]. apply Forall_nil.
  - exists [mkThread [1] [Acc 0 true; Rel 1]; mkThread [] [Acc 0 false]]. split.
    + eapply reach_step; [apply reach_refl|].
      apply (step_thread (init_state progs_bad) 0 (mkThread [] [Acq 1; Acc 0 true; Rel 1])
               (mkThread [1] [Acc 0 true; Rel 1])); reflexivity.
    + exists 0, 1, (mkThread [1] [Acc 0 true; Rel 1]), (mkThread [] [Acc 0 false]), true, false, [Rel 1], [].
      repeat split; auto.
Qed.

Definition E_cyc : list (lock * lock) := [(0, 1); (1, 0)].
Definition progs_cyc : list (list action) := [[Acq 0; Acq 1; Rel 1; Rel 0]; [Acq 1; Acq 0; Rel 0; Rel 1]].

Lemma ordered_cyc : Forall (ordered E_cyc []) progs_cyc.
Proof.
  apply Forall_cons; [|apply Forall_cons; [|apply Forall_nil]]; simpl; repeat split;
    intros h Hh; simpl in *; intuition (subst; auto).
Qed.

Lemma cyclic_order_deadlocks :
  Forall (ordered E_cyc []) progs_cyc /\
  exists s, reachable (init_state progs_cyc) s /\ deadlocked s.
Proof.
  split; [exact ordered_cyc|].
  exists [mkThread [0] [Acq 1; Rel 1; Rel 0]; mkThread [1] [Acq 0; Rel 0; Rel 1]]. split.
  - eapply reach_step.
    + eapply reach_step; [apply reach_refl|].
      apply (step_thread (init_state progs_cyc) 0 (mkThread [] [Acq 0; Acq 1; Rel 1; Rel 0])
               (mkThread [0] [Acq 1; Rel 1; Rel 0])); reflexivity.
    + apply (step_thread [mkThread [0] [Acq 1; Rel 1; Rel 0]; mkThread [] [Acq 1; Acq 0; Rel 0; Rel 1]]
               1 (mkThread [] [Acq 1; Acq 0; Rel 0; Rel 1]) (mkThread [1] [Acq 0; Rel 0; Rel 1])); reflexivity.
  - exists [0; 1]. split; [discriminate|]. intros i [<-|[<-|[]]].
    + exists 1. split; [reflexivity|]. exists 1, (mkThread [1] [Acq 0; Rel 0; Rel 1]). simpl; auto.
    + exists 0. split; [reflexivity|]. exists 0, (mkThread [0] [Acq 1; Rel 1; Rel 0]). simpl; auto.
Qed.
