(* Lockset: abstract semantics of threads executing acquire / release / read / write actions under
   mutex semantics, the access table ("facts") that the translator harness/cmd/c20 regenerates from
   the Go source, and the two decidable conditions on it.  Definitions only - proofs are in Proofs.v. *)
From Coq Require Import List Bool Arith.
Import ListNotations.

Definition lock := nat.
Definition var := nat.

Inductive action :=
| Acq (l : lock)            (* sync.Mutex.Lock: blocks while any thread (also this one) holds l *)
| Rel (l : lock)            (* Unlock *)
| Acc (v : var) (w : bool). (* read (w = false) or write (w = true) of a shared variable *)

Record thread := mkThread { held : list lock; prog : list action }.
Definition state := list thread.

Definition init_state (progs : list (list action)) : state := map (mkThread []) progs.

Definition holds (t : thread) (l : lock) : bool := existsb (Nat.eqb l) (held t).
Definition lock_free (s : state) (l : lock) : bool := forallb (fun t => negb (holds t l)) s.

(* one step of a thread in state s; None = not enabled (blocked on a held mutex, or finished) *)
Definition thread_step (s : state) (t : thread) : option thread :=
  match prog t with
  | [] => None
  | Acq l :: r => if lock_free s l then Some (mkThread (l :: held t) r) else None
  | Rel l :: r => Some (mkThread (remove Nat.eq_dec l (held t)) r)
  | Acc _ _ :: r => Some (mkThread (held t) r)
  end.

Fixpoint set_nth {A} (i : nat) (x : A) (l : list A) : list A :=
  match l, i with
  | [], _ => []
  | _ :: r, 0 => x :: r
  | y :: r, S k => y :: set_nth k x r
  end.

(* interleaving semantics: any enabled thread may move *)
Inductive step : state -> state -> Prop :=
| step_thread : forall s i t t',
    nth_error s i = Some t -> thread_step s t = Some t' -> step s (set_nth i t' s).

Inductive reachable (s0 : state) : state -> Prop :=
| reach_refl : reachable s0 s0
| reach_step : forall s s', reachable s0 s -> step s s' -> reachable s0 s'.

(* a data race on v: two DIFFERENT threads are both about to access v, at least one of them writing *)
Definition race_on (v : var) (s : state) : Prop :=
  exists i j ti tj wi wj ri rj,
    i <> j /\ nth_error s i = Some ti /\ nth_error s j = Some tj /\
    prog ti = Acc v wi :: ri /\ prog tj = Acc v wj :: rj /\ (wi || wj) = true.

(* the lock a thread is waiting for *)
Definition wanted (s : state) (i : nat) : option lock :=
  match nth_error s i with
  | Some t => match prog t with Acq l :: _ => Some l | _ => None end
  | None => None
  end.

(* a lock deadlock: a non-empty set of threads each of which waits for a mutex held by a member of the set *)
Definition deadlocked (s : state) : Prop :=
  exists S : list nat, S <> [] /\
    forall i, In i S -> exists l, wanted s i = Some l /\
      exists j tj, In j S /\ nth_error s j = Some tj /\ In l (held tj).

(* ---- the access table ---------------------------------------------------------------------- *)
(* (variable, is-write, locks definitely held) *)
Definition entry := (var * bool * list lock)%type.
Definition table := list entry.

Definition e_var (e : entry) := fst (fst e).
Definition e_write (e : entry) := snd (fst e).
Definition e_locks (e : entry) := snd e.

Definition inclb (a b : list nat) : bool := forallb (fun x => existsb (Nat.eqb x) b) a.
Definition share (a b : list lock) : bool := existsb (fun l => existsb (Nat.eqb l) b) a.

(* a thread program CONFORMS to the table when every access it performs is covered by a table entry
   whose locks it really holds at that point (H = the locks it holds, by its own Acq/Rel history) *)
Fixpoint conforms (T : table) (H : list lock) (p : list action) : Prop :=
  match p with
  | [] => True
  | Acq l :: r => conforms T (l :: H) r
  | Rel l :: r => conforms T (remove Nat.eq_dec l H) r
  | Acc v w :: r => (exists L, In (v, w, L) T /\ incl L H) /\ conforms T H r
  end.

Fixpoint conformsb (T : table) (H : list lock) (p : list action) : bool :=
  match p with
  | [] => true
  | Acq l :: r => conformsb T (l :: H) r
  | Rel l :: r => conformsb T (remove Nat.eq_dec l H) r
  | Acc v w :: r =>
      existsb (fun e => Nat.eqb (e_var e) v && Bool.eqb (e_write e) w && inclb (e_locks e) H) T
      && conformsb T H r
  end.

(* the lockset condition for ONE variable: every two conflicting entries share a lock *)
Definition pair_ok (e1 e2 : entry) : bool :=
  if e_write e1 || e_write e2 then share (e_locks e1) (e_locks e2) else true.

Definition var_ok (T : table) (v : var) : bool :=
  let Tv := filter (fun e => Nat.eqb (e_var e) v) T in
  forallb (fun e1 => forallb (pair_ok e1) Tv) Tv.

(* the segment a table entry stands for: take its locks, access, release them *)
Definition segment (e : entry) : list action :=
  map Acq (e_locks e) ++ [Acc (e_var e) (e_write e)] ++ map Rel (e_locks e).

Definition built_from (T : table) (p : list action) : Prop :=
  exists es, Forall (fun e => In e T) es /\ p = concat (map segment es).

(* ---- acquisition order --------------------------------------------------------------------- *)
(* E = the pairs (a, b) "b is acquired while a is held"; a program respects E when each of its
   acquisitions, taken with the locks it holds at that point, is a pair of E *)
Fixpoint ordered (E : list (lock * lock)) (H : list lock) (p : list action) : Prop :=
  match p with
  | [] => True
  | Acq l :: r => (forall h, In h H -> In (h, l) E) /\ ordered E (l :: H) r
  | Rel l :: r => ordered E (remove Nat.eq_dec l H) r
  | Acc _ _ :: r => ordered E H r
  end.

(* acyclicity certificate: a rank that strictly increases along every pair *)
Definition order_ok (rank : lock -> nat) (E : list (lock * lock)) : bool :=
  forallb (fun ab => Nat.ltb (rank (fst ab)) (rank (snd ab))) E.
