(* Deciders evaluated by vm_compute on the Facts.v that harness/cmd/c20 regenerates from the source.
   A fact = one (deduplicated) field access of the analysed packages that can run concurrently. *)
From Coq Require Import List Bool Arith.
Import ListNotations.
From PC.Lockset Require Import Model.

Record fact := mkFact { f_var : nat; f_write : bool; f_fn : nat; f_locks : list nat }.
Record ofact := mkOFact { o_a : nat; o_b : nat; o_fn : nat }.

Definition table_of (fs : list fact) : table := map (fun f => (f_var f, f_write f, f_locks f)) fs.
Definition order_rel (os : list ofact) : list (lock * lock) := map (fun o => (o_a o, o_b o)) os.

Definition rank_of (tbl : list (nat * nat)) (l : lock) : nat :=
  match find (fun p => Nat.eqb (fst p) l) tbl with Some p => snd p | None => 0 end.

(* per variable verdict: the hypothesis of lockset_race_free *)
Definition ok_vars (fs : list fact) (n : nat) : list nat := filter (var_ok (table_of fs)) (seq 0 n).
Definition bad_vars (fs : list fact) (n : nat) : list nat :=
  filter (fun v => negb (var_ok (table_of fs) v)) (seq 0 n).

(* ---- who is to blame: the guard of a variable is the lock held by most of its accesses; the culprits
        are the accesses that take part in an unprotected conflicting pair and do not hold the guard -- *)
Definition count_holding (fs : list fact) (l : nat) : nat :=
  length (filter (fun f => existsb (Nat.eqb l) (f_locks f)) fs).

Definition best_lock (fs : list fact) : option nat :=
  fold_left (fun best l =>
               match best with
               | None => Some l
               | Some b => if Nat.ltb (count_holding fs b) (count_holding fs l) then Some l else Some b
               end)
            (flat_map f_locks fs) None.

Definition in_conflict (fs : list fact) (f : fact) : bool :=
  existsb (fun g => Nat.eqb (f_var f) (f_var g) && (f_write f || f_write g)
                    && negb (share (f_locks f) (f_locks g))) fs.

Definition culprits_of (fs : list fact) (v : nat) : list fact :=
  let vs := filter (fun f => Nat.eqb (f_var f) v) fs in
  let g := best_lock vs in
  filter (fun f => in_conflict vs f &&
                   match g with Some l => negb (existsb (Nat.eqb l) (f_locks f)) | None => true end) vs.

Fixpoint dedup_pairs (l : list (nat * nat)) : list (nat * nat) :=
  match l with
  | [] => []
  | p :: r => if existsb (fun q => Nat.eqb (fst p) (fst q) && Nat.eqb (snd p) (snd q)) r
              then dedup_pairs r else p :: dedup_pairs r
  end.

(* flat list v1; fn1; v2; fn2; ... of the inconsistent (variable, function) pairs *)
Definition culprits_flat (fs : list fact) (n : nat) : list nat :=
  flat_map (fun p => [fst p; snd p])
           (dedup_pairs (flat_map (fun v => map (fun f => (v, f_fn f)) (culprits_of fs v)) (bad_vars fs n))).

(* flat list a1; b1; fn1; ... of the acquisition-order facts the rank does not justify *)
Definition bad_order_flat (rank : lock -> nat) (os : list ofact) : list nat :=
  flat_map (fun o => if Nat.ltb (rank (o_a o)) (rank (o_b o)) then [] else [o_a o; o_b o; o_fn o]) os.
